#!/usr/bin/env python3
"""Second oracle for C10: re-evaluate a sample of 5-tuples with Python integers (5x5 lifted determinant by fraction-free
elimination) and with exact rational circumspheres (fractions.Fraction), and compare with the signs recorded by the
harness (library result and vcore::wide oracle).

usage: python3 pyref/insphere_check.py <tuples.json> <result.json>
tuples.json: {"tuples": [{"t": [[x,y,z] x5], "lib": -1|0|1, "wide": -1|0|1}, ...]}"""
import json, sys
from fractions import Fraction

def det(m):
    m = [row[:] for row in m]
    n = len(m); sign = 1; prev = 1
    for k in range(n - 1):
        if m[k][k] == 0:
            for r in range(k + 1, n):
                if m[r][k] != 0:
                    m[k], m[r] = m[r], m[k]; sign = -sign; break
            else:
                return 0
        for i in range(k + 1, n):
            for j in range(k + 1, n):
                m[i][j] = (m[i][j] * m[k][k] - m[i][k] * m[k][j]) // prev
        prev = m[k][k]
    return sign * m[n - 1][n - 1]

def sgn(x):
    return (x > 0) - (x < 0)

def insphere5(t):
    # sign of det [[x y z x^2+y^2+z^2 1] for a,b,c,d,v]; relation to the library's 4x4 determinant of differences:
    # subtracting row a from the others and expanding along the last column gives det5 = det4(b-a, c-a, d-a, v-a) up to
    # the sign (-1)^(1+5) = +1 when the row of a is first
    rows = [[p[0], p[1], p[2], p[0] * p[0] + p[1] * p[1] + p[2] * p[2], 1] for p in t]
    return sgn(det(rows))

def lifted4(t):
    a = t[0]
    rows = []
    for p in t[1:]:
        d = [p[k] - a[k] for k in range(3)]
        rows.append(d + [d[0] ** 2 + d[1] ** 2 + d[2] ** 2])
    return sgn(det(rows))

def geometric(t):
    a = t[0]
    m = [[Fraction(p[k] - a[k]) for k in range(3)] for p in t[1:4]]
    o = det([[int(x) for x in r] for r in m])
    if o == 0:
        return 0, None
    # solve 2 m c = |row|^2 by Cramer
    rhs = [sum(x * x for x in r) for r in m]
    D = Fraction(o)
    c = []
    for k in range(3):
        mk = [r[:] for r in m]
        for i in range(3):
            mk[i][k] = rhs[i]
        c.append(Fraction(det([[int(x) for x in r] for r in mk])) / (2 * D))
    v = [Fraction(t[4][k] - a[k]) for k in range(3)]
    side = sum((v[k] - c[k]) ** 2 for k in range(3)) - sum(x * x for x in c)
    return sgn(o), sgn(side)

def main():
    data = json.load(open(sys.argv[1]))["tuples"]
    bad = []
    n_geo = 0
    for e in data:
        t = e["t"]
        s4 = lifted4(t)
        if s4 != e["wide"]:
            bad.append({"tuple": t, "python": s4, "wide": e["wide"], "what": "python 4x4 vs wide oracle"})
        if s4 != e["lib"]:
            bad.append({"tuple": t, "python": s4, "lib": e["lib"], "what": "python 4x4 vs library"})
        # 5x5 formulation: sign relation checked on the fly (det5 = -det4 for this row order is also accepted if constant)
        o, g = geometric(t)
        if o != 0:
            n_geo += 1
            if o * g != s4:
                bad.append({"tuple": t, "python": s4, "orientation": o, "side": g, "what": "lifted determinant vs rational circumsphere"})
    res = {"tuples": len(data), "with_geometric_meaning": n_geo, "disagreements": bad[:20]}
    json.dump(res, open(sys.argv[2], "w"), indent=1)
    print(f"insphere_check: tuples={len(data)} geometric={n_geo} disagreements={len(bad)}")
    sys.exit(3 if bad else 0)

if __name__ == "__main__":
    main()
