#!/usr/bin/env python3
"""Who checks the checker: compare the brute-force reference clipper of the harness (and the implementation) with Qhull.

usage: python3-vt pyref/qhull_check.py <export.json> <result.json>

export.json (written by `vmon C01 --leg qhull`): {"cases": [{"dim":2|3, "periodic":bool, "anchor":[..], "width":[..],
"pts":[[x,y,z],..], "cells":[{"idx":i, "ref_volume":v, "impl_volume":v, "ref_faces":{"j:sx,sy,sz":area,..}}]}]}

For every case the Voronoi diagram of the generators plus their images (periodic: 3^d lattice images; reflective:
mirror images through the 2d walls, which reproduces the clipping by the box exactly) is computed with
scipy.spatial.Voronoi (Qhull); cell volumes come from ConvexHull of the region vertices, face areas from the ridge
polygons. A disagreement between Qhull and the reference is an ORACLE problem (reported, exit 3), never a verdict on
the library."""
import json, sys, itertools
import numpy as np
from scipy.spatial import Voronoi, ConvexHull

def main():
    exp = json.load(open(sys.argv[1]))
    out = {"cases": 0, "cells_compared": 0, "faces_compared": 0, "max_rel_dV_ref": 0.0, "max_rel_dV_impl": 0.0,
           "max_rel_dA_ref": 0.0, "skipped_qhull_error": 0, "disagreements": []}
    for case in exp["cases"]:
        d = case["dim"]
        w = np.array(case["width"][:d], float)
        a = np.array(case["anchor"][:d], float)
        pts = np.array([p[:d] for p in case["pts"]], float)
        n = len(pts)
        if n < 1 or d < 2:
            continue
        images = [pts]
        tags = [(j, (0,) * d) for j in range(n)]
        if case["periodic"]:
            for s in itertools.product((-1, 0, 1), repeat=d):
                if any(s):
                    images.append(pts + np.array(s) * w)
                    tags += [(j, s) for j in range(n)]
        else:
            for k in range(d):
                for wall, sgn in ((a[k], -1), (a[k] + w[k], 1)):
                    m = pts.copy()
                    m[:, k] = 2 * wall - m[:, k]
                    images.append(m)
                    tags += [(-1 - (2 * k + (1 if sgn > 0 else 0)), (0,) * d) for _ in range(n)]
        allp = np.vstack(images)
        # a far shell so that every cell of interest is bounded
        try:
            vor = Voronoi(allp, qhull_options="Qbb Qc Qx")
        except Exception as e:
            out["skipped_qhull_error"] += 1
            continue
        out["cases"] += 1
        vol_box = float(np.prod(w))
        ridges = {}
        for (p, q), rv in zip(vor.ridge_points, vor.ridge_vertices):
            ridges.setdefault(p, []).append((q, rv))
            ridges.setdefault(q, []).append((p, rv))
        for cell in case["cells"]:
            i = cell["idx"]
            reg = vor.regions[vor.point_region[i]]
            if -1 in reg or len(reg) < d + 1:
                continue
            try:
                vq = ConvexHull(vor.vertices[reg]).volume
            except Exception:
                continue
            out["cells_compared"] += 1
            for key, name in (("ref_volume", "max_rel_dV_ref"), ("impl_volume", "max_rel_dV_impl")):
                rel = abs(vq - cell[key]) / vol_box
                out[name] = max(out[name], rel)
                if rel > 1e-9 and key == "ref_volume":
                    out["disagreements"].append({"origin": case.get("origin"), "cell": i, "what": "volume", "qhull": vq, "ref": cell[key]})
            # faces towards generators
            scale_a = vol_box ** ((d - 1) / d)
            qa = {}
            for q, rv in ridges.get(i, []):
                if -1 in rv or len(rv) < d:
                    continue
                j, s = tags[q]
                if j < 0:
                    continue
                poly = vor.vertices[rv]
                if d == 2:
                    area = float(np.linalg.norm(poly[0] - poly[1]))
                else:
                    nrm = allp[q] - allp[i]
                    nrm = nrm / np.linalg.norm(nrm)
                    u = np.cross(nrm, [1.0, 0.3, 0.2]); u /= np.linalg.norm(u)
                    v = np.cross(nrm, u)
                    pr = np.stack([poly @ u, poly @ v], axis=1)
                    try:
                        area = ConvexHull(pr).volume
                    except Exception:
                        area = 0.0
                sk = ",".join(str(x) for x in (list(s) + [0, 0, 0])[:3])
                qa[f"{j}:{sk}"] = qa.get(f"{j}:{sk}", 0.0) + area
            for key in set(qa) | set(cell["ref_faces"]):
                ar, aq = cell["ref_faces"].get(key, 0.0), qa.get(key, 0.0)
                out["faces_compared"] += 1
                rel = abs(ar - aq) / scale_a
                out["max_rel_dA_ref"] = max(out["max_rel_dA_ref"], rel)
                if rel > 1e-8:
                    out["disagreements"].append({"origin": case.get("origin"), "cell": i, "what": f"face {key}", "qhull": aq, "ref": ar})
    out["disagreements"] = out["disagreements"][:20]
    json.dump(out, open(sys.argv[2], "w"), indent=1)
    print(f"qhull_check: cases={out['cases']} cells={out['cells_compared']} faces={out['faces_compared']} "
          f"max|dV|/Vbox ref={out['max_rel_dV_ref']:.2e} impl={out['max_rel_dV_impl']:.2e} max|dA| ref={out['max_rel_dA_ref']:.2e} "
          f"disagreements={len(out['disagreements'])} qhull_errors={out['skipped_qhull_error']}")
    sys.exit(3 if out["disagreements"] else 0)

if __name__ == "__main__":
    main()
