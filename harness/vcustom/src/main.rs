//! C14: a genuine downstream crate (public API of meshless_voronoi with default features, no hooks) that defines its own
//! cell and face integrals. The integrals ARE the monitors: they record what the library feeds them.
//!
//! usage: vcustom C14 [--tier quick|thorough] [--seed N] [--verif-dir DIR] [--out-dir DIR] [--replay FILE]

use glam::DVec3;
use meshless_voronoi::integrals::{AreaIntegral, CellIntegral, FaceIntegral};
use meshless_voronoi::{ConvexCell, ConvexCellMarker, Dimensionality, VoronoiIntegrator, WithoutFaces};
use serde_json::json;
use std::collections::BTreeMap;
use std::path::PathBuf;
use std::sync::atomic::{AtomicU64, Ordering};
use std::sync::Mutex;
use vcore::case::{gen_case, gen_mask, Case, GenOpts};
use vcore::refcell::{Key, RefSetup};
use vcore::report::{KnownFindings, Report, Violation};
use vcore::rng::Rng;

const U: f64 = 1.1102230246251565e-16;
const K: f64 = 64.;

// ------------------------------------------------------------------------------------------------
// the custom integrals

/// Moments of degree <= 2 accumulated from the signed tetrahedra (generator = apex).
#[derive(Clone, Default)]
struct Moments {
    /// 1, x, y, z, xx, yy, zz, xy, xz, yz
    m: [f64; 10],
    tets: usize,
    abs_volume: f64,
}

fn tet_moments(p: [DVec3; 4]) -> [f64; 10] {
    // documented convention: counter-clockwise base (v0, v1, v2) as seen from the apex contributes positively;
    // that is the sign of det[v1 - v0, v2 - v0, apex - v0]
    let vol = (p[1] - p[0]).dot((p[2] - p[0]).cross(p[3] - p[0])) / 6.;
    let s = p[0] + p[1] + p[2] + p[3];
    let mut m = [0.; 10];
    m[0] = vol;
    m[1] = vol * s.x / 4.;
    m[2] = vol * s.y / 4.;
    m[3] = vol * s.z / 4.;
    let idx = [(0, 0), (1, 1), (2, 2), (0, 1), (0, 2), (1, 2)];
    for (q, (a, b)) in idx.iter().enumerate() {
        let mut sq = 0.;
        for v in &p {
            sq += v[*a] * v[*b];
        }
        m[4 + q] = vol / 20. * (sq + s[*a] * s[*b]);
    }
    m
}

impl CellIntegral for Moments {
    fn init<M: ConvexCellMarker>(_cell: &ConvexCell<M>) -> Self {
        Moments::default()
    }
    fn collect(&mut self, v0: DVec3, v1: DVec3, v2: DVec3, gen: DVec3) {
        let t = tet_moments([v0, v1, v2, gen]);
        for k in 0..10 {
            self.m[k] += t[k];
        }
        self.tets += 1;
        self.abs_volume += t[0].abs();
    }
    fn finalize(self) -> Self {
        self
    }
}

/// Face monitor: plane residual of every base triangle, signed areas by the documented convention.
#[derive(Clone, Default)]
struct FaceMon {
    n: DVec3,
    p: DVec3,
    gen_on_plane: bool,
    max_residual: f64,
    signed_area: f64,
    abs_area: f64,
    /// area of the triangles whose orientation as seen from the generator is undecidable in f64
    ambiguous_area: f64,
    tris: usize,
    cell_idx: usize,
}

impl FaceIntegral for FaceMon {
    fn init<M: ConvexCellMarker>(cell: &ConvexCell<M>, clipping_plane_idx: usize) -> Self {
        let pl = &cell.clipping_planes[clipping_plane_idx].plane;
        FaceMon {
            n: pl.n,
            p: pl.p,
            gen_on_plane: pl.n.dot(cell.loc - pl.p) == 0.,
            cell_idx: cell.idx,
            ..Default::default()
        }
    }
    fn collect(&mut self, v0: DVec3, v1: DVec3, v2: DVec3, gen: DVec3) {
        for v in [v0, v1, v2] {
            self.max_residual = self.max_residual.max(self.n.dot(v - self.p).abs());
        }
        let nt = 0.5 * (v1 - v0).cross(v2 - v0);
        let side = nt.dot(gen - v0);
        let a = nt.length();
        self.signed_area += if side < 0. { -a } else { a };
        self.abs_area += a;
        if side.abs() <= 64. * U * 2. * a * (gen - v0).length() {
            self.ambiguous_area += a;
        }
        self.tris += 1;
    }
    fn finalize(self) -> Self {
        self
    }
}

// ------------------------------------------------------------------------------------------------
// tolerance model (DESIGN 5.3) from the public fields of a cell

struct Scales {
    m: f64,
    l: f64,
    vbox: f64,
    ascale: f64,
    athr: f64,
    dim: usize,
}

fn scales(c: &Case) -> Scales {
    let (a, w) = c.norm_box();
    let (mut lo, mut hi) = (a, a + w);
    if c.periodic {
        for k in 0..c.dim {
            lo[k] -= w[k];
            hi[k] += w[k];
        }
    }
    let l = c.lmax();
    let ascale = if c.dim == 1 { 1. } else { l.powi(c.dim as i32 - 1) };
    Scales {
        m: lo.abs().max(hi.abs()).max_element().max(l),
        l,
        vbox: c.box_measure(),
        ascale,
        athr: 1e-9 * ascale,
        dim: c.dim,
    }
}

struct Tol {
    max_dv: f64,
    tol_v: f64,
    tol_a: f64,
    ill: bool,
}

fn cell_tol(cell: &ConvexCell<WithoutFaces>, s: &Scales) -> Tol {
    let mut delta = 0.;
    let mut max_dv: f64 = 0.;
    let mut rmax: f64 = 0.;
    for v in &cell.vertices {
        let d = v.dual;
        let det = cell.clipping_planes[d[0]].plane.n.dot(cell.clipping_planes[d[1]].plane.n.cross(cell.clipping_planes[d[2]].plane.n)).abs();
        let dv = K * U * s.m / det.max(1e-300);
        delta += dv;
        max_dv = max_dv.max(dv);
        rmax = rmax.max(v.loc.distance(cell.loc));
    }
    let pi = std::f64::consts::PI;
    let surf = match s.dim {
        3 => 4. * pi * rmax * rmax,
        2 => 2. * (2. * pi * rmax) + 2. * pi * rmax * rmax,
        _ => 2. + 8. * rmax,
    };
    let rel = K * U * (1. + s.m / s.l);
    let perim = match s.dim {
        3 => 2. * pi * rmax,
        2 => 2. + 4. * rmax,
        _ => 4.,
    };
    Tol {
        max_dv,
        tol_v: delta * surf + rel * s.vbox,
        tol_a: delta * perim + rel * s.ascale,
        // the sum over the vertices grows with the size of the cell: a cell with thousands of well-conditioned vertices is
        // not ill-conditioned (giant cells), so the threshold scales beyond 64 vertices
        ill: !(delta <= 1e-8 * s.l * (cell.vertices.len() as f64 / 64.).max(1.)),
    }
}

fn shift_key(shift: Option<DVec3>, w: DVec3) -> [i8; 3] {
    let s = shift.unwrap_or(DVec3::ZERO);
    let mut k = [0i8; 3];
    for a in 0..3 {
        k[a] = if s[a] == 0. {
            0
        } else if s[a] == w[a] {
            1
        } else if s[a] == -w[a] {
            -1
        } else {
            99
        };
    }
    k
}

fn wall_of(n_in: DVec3) -> Option<u8> {
    // clipping plane normals point inwards
    let t = [(DVec3::X, 0u8), (DVec3::NEG_X, 1), (DVec3::Y, 2), (DVec3::NEG_Y, 3), (DVec3::Z, 4), (DVec3::NEG_Z, 5)];
    t.iter().find(|(d, _)| *d == n_in).map(|x| x.1)
}

// ------------------------------------------------------------------------------------------------

fn dimn(d: usize) -> Dimensionality {
    match d {
        1 => Dimensionality::OneD,
        2 => Dimensionality::TwoD,
        _ => Dimensionality::ThreeD,
    }
}

fn one_c14(prop: &str, c: &Case, rep: &mut Report) {
    let built = std::panic::catch_unwind(|| {
        let vi = VoronoiIntegrator::build(&c.pts, c.mask.as_deref(), c.anchor, c.width, dimn(c.dim), c.periodic);
        let mom: Vec<Moments> = vi.compute_cell_integrals();
        let faces = vi.compute_face_integrals::<FaceMon>();
        let lib_areas = vi.compute_face_integrals::<AreaIntegral>();
        (vi, mom, faces, lib_areas)
    });
    let Ok((vi, mom, faces, lib_areas)) = built else {
        rep.violations.push(Violation::new(prop, "totality.panic", "the library panicked while building / integrating (message on stderr)".into(), Some(c), json!({})));
        rep.evaluations += 1;
        return;
    };
    let s = scales(c);
    let (_, w) = c.norm_box();
    let n = c.n();
    let setup = RefSetup::new(c);
    let active: Vec<usize> = (0..n).filter(|&i| c.mask.as_ref().map_or(true, |m| m[i])).collect();
    if mom.len() != active.len() {
        rep.violations.push(Violation::new(prop, "c14.cell_integral_count", format!("{} custom cell integrals for {} constructed cells", mom.len(), active.len()), Some(c), json!({})));
        rep.evaluations += 1;
        return;
    }
    let mut tols: BTreeMap<usize, Tol> = BTreeMap::new();
    // ---- (b) signed decomposition: moments of degree <= 2 against the reference polytope
    let mut wf_moments: Option<Vec<Moments>> = None;
    if c.dim == 3 {
        let v2 = vi.clone();
        if let Ok(x) = std::panic::catch_unwind(move || {
            let vf = v2.with_faces();
            let m: Vec<Moments> = vf.compute_cell_integrals();
            let f = vf.compute_face_integrals::<FaceMon>();
            let a = vf.compute_face_integrals::<AreaIntegral>();
            (m, f, a)
        }) {
            wf_moments = Some(x.0);
            // faces of the with-faces route are checked below together with the plain route
            check_faces(prop, "with_faces", c, &vi, &x.1, None, &setup, &s, w, rep);
            // the built-in AreaIntegral with and without stored faces
            let mut plain: BTreeMap<(usize, Option<usize>, [i8; 3], u8), f64> = BTreeMap::new();
            for (f, fmon) in lib_areas.iter().zip(faces.iter()) {
                let wall = if f.right().is_none() { wall_of(fmon.integral().n).unwrap_or(200) } else { 0 };
                *plain.entry((f.left(), f.right(), shift_key(f.shift(), w), wall)).or_insert(0.) += f.integral().area;
            }
            for (f, fmon) in x.2.iter().zip(x.1.iter()) {
                let wall = if f.right().is_none() { wall_of(fmon.integral().n).unwrap_or(200) } else { 0 };
                let key = (f.left(), f.right(), shift_key(f.shift(), w), wall);
                let Some(cell) = vi.get_cell_at(f.left()) else { continue };
                let t = cell_tol(cell, &s);
                if t.ill {
                    continue;
                }
                let a0 = plain.get(&key).copied().unwrap_or(0.);
                let a1 = f.integral().area;
                rep.count("area_integrals_with_vs_without_faces", 1);
                if !((a0 - a1).abs() <= 2. * t.tol_a) && a0.abs().max(a1.abs()) > s.athr {
                    let mon = if fmon.integral().gen_on_plane { "c14.face_area_generator_on_plane" } else { "c14.area_with_vs_without_faces" };
                    rep.violations.push(Violation::new(prop, mon, format!("cell {}, face towards {:?}: AreaIntegral = {a1:e} with stored faces and {a0:e} without{}", f.left(), f.right(), if fmon.integral().gen_on_plane { " (the generator lies exactly in the plane of this wall face)" } else { "" }), Some(c), json!({"cell": f.left(), "right": f.right()})));
                }
            }
        } else {
            rep.violations.push(Violation::new(prop, "totality.panic", "with_faces() / integration of the with-faces cells panicked".into(), Some(c), json!({})));
        }
    }
    for (k, &i) in active.iter().enumerate() {
        let cell = vi.get_cell_at(i).expect("active cell");
        let t = cell_tol(cell, &s);
        // with_faces -> discard_faces must hand the custom integrals the very same decomposition again (3D)
        if c.dim == 3 && k % 3 == 0 && cell.vertices.len() <= 4000 {
            let cl = cell.clone();
            if let Ok(back) = std::panic::catch_unwind(move || cl.with_faces().discard_faces().compute_cell_integral::<(), Moments>(())) {
                rep.count("cell_integrals_after_face_round_trip", 1);
                if (0..10).any(|q| back.m[q].to_bits() != mom[k].m[q].to_bits()) || back.tets != mom[k].tets {
                    rep.violations.push(Violation::new(prop, "c14.round_trip_changes_decomposition", format!("cell {i}: after with_faces() -> discard_faces() the custom cell integral receives another decomposition: volume {:e} ({} tetrahedra) instead of {:e} ({})", back.m[0], back.tets, mom[k].m[0], mom[k].tets), Some(c), json!({"cell": i})));
                }
            } else {
                rep.violations.push(Violation::new(prop, "totality.panic", format!("cell {i}: with_faces() -> discard_faces() -> compute_cell_integral panicked"), Some(c), json!({"cell": i})));
            }
        }
        let rs = setup.summary(i);
        rep.count("cells_checked", 1);
        rep.count("tetrahedra_received", mom[k].tets as u64);
        if !t.ill {
            let mm = s.m.max(s.l) * 2.;
            let want = [rs.volume, rs.moment.x, rs.moment.y, rs.moment.z, rs.moment2[0], rs.moment2[1], rs.moment2[2], rs.moment2[3], rs.moment2[4], rs.moment2[5]];
            let names = ["1", "x", "y", "z", "xx", "yy", "zz", "xy", "xz", "yz"];
            for q in 0..10 {
                let deg = if q == 0 { 0 } else if q < 4 { 1 } else { 2 };
                let tol = t.tol_v * mm.powi(deg);
                let d = (mom[k].m[q] - want[q]).abs();
                rep.max(&format!("c14.moment_deg{deg}_err_over_tol"), d / tol);
                if !(d <= tol) {
                    rep.violations.push(Violation::new(prop, "c14.moment", format!("cell {i}: signed sum over the {} tetrahedra of the integral of {} = {:e}, integral over the reference cell = {:e} (tol {tol:e})", mom[k].tets, names[q], mom[k].m[q], want[q]), Some(c), json!({"cell": i, "monomial": names[q]})));
                    break;
                }
            }
            // (e) with and without stored faces
            if let Some(wm) = &wf_moments {
                rep.count("cells_with_vs_without_faces", 1);
                for q in 0..10 {
                    let deg = if q == 0 { 0 } else if q < 4 { 1 } else { 2 };
                    let tol = 2. * t.tol_v * mm.powi(deg);
                    if !((wm[k].m[q] - mom[k].m[q]).abs() <= tol) {
                        rep.violations.push(Violation::new(prop, "c14.with_vs_without_faces", format!("cell {i}: integral of {} is {:e} with stored faces and {:e} without (tol {tol:e})", names[q], wm[k].m[q], mom[k].m[q]), Some(c), json!({"cell": i, "monomial": names[q]})));
                        break;
                    }
                }
            }
        } else {
            rep.count("cells_ill_conditioned_metric_skipped", 1);
        }
        tols.insert(i, t);
    }
    // ---- (c) base triangles of the face integrals
    check_faces(prop, "without_faces", c, &vi, &faces, Some(&lib_areas), &setup, &s, w, rep);
    rep.evaluations += 1;
    if !active.is_empty() {
        rep.nontrivial.insert(c.hash());
    }
    rep.sample(c.summary());
}

#[allow(clippy::too_many_arguments)]
fn check_faces(
    prop: &str,
    route: &str,
    c: &Case,
    vi: &VoronoiIntegrator<WithoutFaces>,
    faces: &[meshless_voronoi::integrals::FaceIntegrator<FaceMon>],
    lib_areas: Option<&[meshless_voronoi::integrals::FaceIntegrator<AreaIntegral>]>,
    setup: &RefSetup,
    s: &Scales,
    w: DVec3,
    rep: &mut Report,
) {
    if let Some(la) = lib_areas {
        if la.len() != faces.len() {
            rep.violations.push(Violation::new(prop, "c14.face_integral_count", format!("{} custom face integrals but {} AreaIntegrals", faces.len(), la.len()), Some(c), json!({})));
            return;
        }
    }
    let mut refs: BTreeMap<usize, vcore::refcell::RSummary> = BTreeMap::new();
    for (k, f) in faces.iter().enumerate() {
        let i = f.left();
        let fm = f.integral();
        let Some(cell) = vi.get_cell_at(i) else {
            rep.violations.push(Violation::new(prop, "c14.face_of_unconstructed_cell", format!("{route}: a face integral is reported for the unconstructed cell {i}"), Some(c), json!({"cell": i})));
            continue;
        };
        if fm.cell_idx != i {
            rep.violations.push(Violation::new(prop, "c14.face_init_cell", format!("{route}: face integral #{k} was initialised with cell {} but is reported with left = {i}", fm.cell_idx), Some(c), json!({"cell": i})));
        }
        let t = cell_tol(cell, s);
        rep.count("faces_checked", 1);
        rep.count("base_triangles_received", fm.tris as u64);
        // base triangles lie in the plane of their face
        let tolp = 4. * t.max_dv + K * U * s.m;
        rep.max("c14.plane_residual_over_tol", fm.max_residual / tolp);
        // (the bound adapts to the worst vertex of the cell by itself: it stays decisive on a cell whose SUMMED vertex error
        // makes the volume comparison inconclusive, as long as the bound itself is small against the box)
        if !(fm.max_residual <= tolp) && (!t.ill || tolp <= 1e-6 * s.l) {
            rep.violations.push(Violation::new(prop, "c14.triangle_off_plane", format!("{route}: cell {i}, face towards {:?}: a base triangle vertex is {:e} off the face's plane (tol {tolp:e})", f.right(), fm.max_residual), Some(c), json!({"cell": i, "right": f.right()})));
        }
        // the same triangles through the library's own AreaIntegral
        if let Some(la) = lib_areas {
            let a = la[k].integral().area;
            if !((a - fm.signed_area).abs() <= 64. * U * fm.abs_area + 2. * fm.ambiguous_area + f64::MIN_POSITIVE) && !fm.gen_on_plane {
                rep.violations.push(Violation::new(prop, "c14.area_integral_mismatch", format!("{route}: cell {i}, face towards {:?}: AreaIntegral = {a:e} but the signed areas of the same triangles (documented convention) sum to {:e}", f.right(), fm.signed_area), Some(c), json!({"cell": i, "right": f.right()})));
            }
        }
        // signed areas sum to the face area of the reference polytope
        if t.ill {
            continue;
        }
        let key = match f.right() {
            Some(j) => Key::Gen(j, shift_key(f.shift(), w)),
            None => Key::Wall(wall_of(fm.n).unwrap_or(200)),
        };
        let rs = refs.entry(i).or_insert_with(|| setup.summary(i));
        let want = rs.faces.get(&key).map_or(0., |x| x.area);
        let d = (fm.signed_area - want).abs();
        rep.max("c14.face_area_err_over_tol", if fm.gen_on_plane { 0. } else { d / t.tol_a });
        if !(d <= t.tol_a) && fm.signed_area.abs().max(want) > s.athr {
            if fm.gen_on_plane {
                rep.violations.push(Violation::new(prop, "c14.face_area_generator_on_plane", format!("{route}: cell {i}: the generator lies exactly in the plane of wall face {key:?}; signed areas sum to {:e}, reference area {want:e}", fm.signed_area), Some(c), json!({"cell": i, "route": route})));
            } else {
                rep.violations.push(Violation::new(prop, "c14.face_area", format!("{route}: cell {i}, face {key:?}: signed areas of the {} base triangles sum to {:e}, area of the reference face {want:e} (tol {:e})", fm.tris, fm.signed_area, t.tol_a), Some(c), json!({"cell": i, "key": format!("{key:?}"), "route": route})));
            }
        }
    }
}

// ------------------------------------------------------------------------------------------------

#[global_allocator]
static ALLOC: vcore::alloc::Budget = vcore::alloc::Budget;

fn main() {
    vcore::alloc::init();
    let mut id = String::new();
    let mut tier = std::env::var("VERIF_TIER").unwrap_or_else(|_| "quick".into());
    let mut seed: u64 = std::env::var("VERIF_SEED").ok().and_then(|s| s.parse().ok()).unwrap_or(1);
    let mut verif_dir = PathBuf::from("/verif");
    let mut out_dir: Option<PathBuf> = None;
    let mut replay: Option<PathBuf> = None;
    let mut leg: Option<String> = None;
    let scale: f64 = std::env::var("VERIF_SCALE").ok().and_then(|s| s.parse().ok()).unwrap_or(1.0);
    let mut it = std::env::args().skip(1);
    while let Some(x) = it.next() {
        match x.as_str() {
            "--tier" => tier = it.next().unwrap(),
            "--seed" => seed = it.next().unwrap().parse().unwrap(),
            "--verif-dir" => verif_dir = PathBuf::from(it.next().unwrap()),
            "--out-dir" => out_dir = Some(PathBuf::from(it.next().unwrap())),
            "--replay" => replay = Some(PathBuf::from(it.next().unwrap())),
            "--leg" => leg = Some(it.next().unwrap()),
            s if id.is_empty() => id = s.to_string(),
            s => {
                eprintln!("unknown argument {s}");
                std::process::exit(2);
            }
        }
    }
    if id != "C14" {
        eprintln!("usage: vcustom C14 [--tier quick|thorough] [--seed N] [--verif-dir DIR] [--out-dir DIR] [--replay FILE] [--leg NAME]");
        std::process::exit(2);
    }
    let out = out_dir.unwrap_or_else(|| verif_dir.clone());
    let known = KnownFindings::load(&verif_dir.join("known_findings.json"));
    let mut rep = Report::new("C14", &tier, seed);
    if let Some(path) = replay {
        let txt = std::fs::read_to_string(&path).expect("replay file");
        let v: serde_json::Value = serde_json::from_str(&txt).expect("json");
        let case = Case::from_json(&v["case"]);
        one_c14("C14", &case, &mut rep);
        for v in &rep.violations {
            println!("VIOLATION property=C14 replay={}", path.display());
            println!("  [{}] {}", v.monitor, v.what);
        }
        for (k, v) in &rep.maxima {
            println!("  max {k} = {v:e}");
        }
        std::process::exit(if rep.violations.is_empty() { 0 } else { 1 });
    }
    rep.rule = "cases = seeded inputs of the conditioned families x dimensionality x periodic flag, one third with masks; a downstream crate's own CellIntegral (moments of degree <= 2 from the signed tetrahedra) and FaceIntegral (plane residuals and signed areas of the base triangles) are evaluated through compute_cell_integrals / compute_face_integrals, without and (3D) with stored faces, and compared with the brute-force reference polytope; distinct = distinct hash of (input, mask); non-trivial = at least one constructed cell".into();
    rep.assumptions = vec![
        "'every downstream implementation' is witnessed by the implementations in this crate; integrands up to degree 2".into(),
        "tolerance model of DESIGN 5.3; reference clipper vcore::refcell".into(),
        "the extra-data clause is decided by the separate crate harness/vdata (compile probe + alignment monitor)".into(),
    ];
    let thorough = tier == "thorough";
    let ncases = ((if thorough { 60000. } else { 3000. }) * scale) as u64;
    let szs: Vec<usize> = if thorough { vec![1, 2, 3, 4, 5, 8, 13, 27, 50, 100, 200, 400] } else { vec![1, 2, 3, 4, 5, 8, 13, 27, 50, 100] };
    let giant: Vec<usize> = if thorough { vec![3000, 12000, 12000, 25000] } else { vec![3000, 12000] };
    let nwedge: u64 = std::env::var("VERIF_WEDGES").ok().and_then(|s| s.parse().ok()).unwrap_or(if thorough { 20000 } else { 1500 });
    // drums: a prism cell whose end caps are faces with m vertices (every other workload has faces of at most ~15 vertices)
    let drums: Vec<usize> = if thorough { vec![5, 8, 20, 25, 30, 40, 63, 64, 65, 100, 128, 200, 256, 257, 400, 700, 1500, 3000] } else { vec![5, 8, 20, 25, 30, 40, 64, 65, 100, 129, 200, 257] };
    let next = AtomicU64::new(0);
    let merged: Mutex<Vec<Report>> = Mutex::new(vec![]);
    // silence the default panic message flood: one line per panic
    std::panic::set_hook(Box::new(|info| {
        eprintln!("[vcustom] library panic: {}", info);
    }));
    let nw = std::thread::available_parallelism().map(|n| n.get()).unwrap_or(4);
    std::thread::scope(|sc| {
        for _ in 0..nw {
            sc.spawn(|| {
                let mut local = Report::new("C14", &tier, seed);
                loop {
                    let k = next.fetch_add(1, Ordering::Relaxed);
                    if k >= ncases + giant.len() as u64 + nwedge + drums.len() as u64 {
                        break;
                    }
                    if k >= ncases + giant.len() as u64 + nwedge {
                        let j = k - ncases - giant.len() as u64 - nwedge;
                        let c = vcore::case::drum_case("C14", &tier, seed, j, drums[j as usize]);
                        one_c14("C14", &c, &mut local);
                        local.count("drum_inputs", 1);
                        continue;
                    }
                    if k >= ncases + giant.len() as u64 {
                        // wedges: a pair of generators 3e-7 .. 1e-5 box widths apart (nearly parallel adjacent faces)
                        let c = vcore::case::wedge_case("C14", &tier, seed, k - ncases - giant.len() as u64);
                        one_c14("C14", &c, &mut local);
                        local.count("wedge_inputs", 1);
                        continue;
                    }
                    if k >= ncases {
                        // giant cells (about n faces, 2n vertices, 6n face-vertex connections), centre + two shell cells
                        let c = vcore::case::shell_case("C14", &tier, seed, k - ncases, giant[(k - ncases) as usize]);
                        one_c14("C14", &c, &mut local);
                        local.count("giant_cell_inputs", 1);
                        continue;
                    }
                    let o = GenOpts {
                        sizes: &szs,
                        ..Default::default()
                    };
                    let mut c = gen_case("C14", &tier, seed, k, &o);
                    if k % 3 == 2 && c.n() > 0 {
                        let mut r = Rng::stream("C14mask", &[seed, k]);
                        c.mask = Some(gen_mask(c.n(), &mut r));
                    }
                    one_c14("C14", &c, &mut local);
                }
                merged.lock().unwrap().push(local);
            });
        }
    });
    for l in merged.into_inner().unwrap() {
        rep.merge(l);
    }
    let code = match leg {
        Some(l) => rep.finish_leg(&out, &known, &l),
        None => rep.finish(&out, &known),
    };
    std::process::exit(code);
}
