fn main(){}
