//! C14, clause "per-cell extra data is delivered to the cell with the same generator index, also under masks".
//!
//! A downstream program that defines cell and face integrals WITH per-cell data (the data of cell i is the tag i) and
//! checks, inside `init_with_data`, that the tag equals `cell.idx`, for all four `*_with_data` entry points, with and
//! without masks. On the pinned tree this program does not compile: the library's blanket implementation
//! `impl<T: CellIntegral> CellIntegralWithData for T` (Data = ()) conflicts with every implementation for a real data
//! type (error E0119) - finding F11. The C14 driver treats exactly that compile error as the known finding; if the
//! crate compiles, this monitor runs and its verdict counts.

use glam::DVec3;
use meshless_voronoi::integrals::{CellIntegral, CellIntegralWithData, FaceIntegral, FaceIntegralWithData};
use meshless_voronoi::{ConvexCell, ConvexCellMarker, Dimensionality, VoronoiIntegrator};
use std::sync::atomic::{AtomicU64, Ordering};
use vcore::case::{gen_case, gen_mask, GenOpts};
use vcore::rng::Rng;

static MISALIGNED: AtomicU64 = AtomicU64::new(0);
static INITS: AtomicU64 = AtomicU64::new(0);

#[derive(Clone)]
struct Tagged {
    tag: usize,
    idx: usize,
}

impl CellIntegral for Tagged {
    fn init<M: ConvexCellMarker>(cell: &ConvexCell<M>) -> Self {
        Tagged { tag: usize::MAX, idx: cell.idx }
    }
    fn collect(&mut self, _v0: DVec3, _v1: DVec3, _v2: DVec3, _gen: DVec3) {}
    fn finalize(self) -> Self {
        self
    }
}

impl CellIntegralWithData for Tagged {
    type Data = usize;
    fn init_with_data<M: ConvexCellMarker>(cell: &ConvexCell<M>, data: usize) -> Self {
        INITS.fetch_add(1, Ordering::Relaxed);
        if data != cell.idx {
            MISALIGNED.fetch_add(1, Ordering::Relaxed);
        }
        Tagged { tag: data, idx: cell.idx }
    }
}

#[derive(Clone)]
struct TaggedFace {
    tag: usize,
    idx: usize,
}

impl FaceIntegral for TaggedFace {
    fn init<M: ConvexCellMarker>(cell: &ConvexCell<M>, _plane: usize) -> Self {
        TaggedFace { tag: usize::MAX, idx: cell.idx }
    }
    fn collect(&mut self, _v0: DVec3, _v1: DVec3, _v2: DVec3, _gen: DVec3) {}
    fn finalize(self) -> Self {
        self
    }
}

impl FaceIntegralWithData for TaggedFace {
    type Data = usize;
    fn init_with_data<M: ConvexCellMarker>(cell: &ConvexCell<M>, _plane: usize, data: usize) -> Self {
        INITS.fetch_add(1, Ordering::Relaxed);
        if data != cell.idx {
            MISALIGNED.fetch_add(1, Ordering::Relaxed);
        }
        TaggedFace { tag: data, idx: cell.idx }
    }
}

fn main() {
    let seed: u64 = std::env::var("VERIF_SEED").ok().and_then(|s| s.parse().ok()).unwrap_or(1);
    let n: u64 = std::env::args().nth(1).and_then(|s| s.parse().ok()).unwrap_or(300);
    let mut bad_cases = 0;
    for k in 0..n {
        let o = GenOpts::default();
        let mut c = gen_case("C14data", "quick", seed, k, &o);
        if k % 2 == 1 {
            let mut r = Rng::stream("C14datamask", &[seed, k]);
            c.mask = Some(gen_mask(c.n(), &mut r));
        }
        let dim = match c.dim {
            1 => Dimensionality::OneD,
            2 => Dimensionality::TwoD,
            _ => Dimensionality::ThreeD,
        };
        let vi = VoronoiIntegrator::build(&c.pts, c.mask.as_deref(), c.anchor, c.width, dim, c.periodic);
        let tags: Vec<usize> = (0..c.n()).collect();
        let before = MISALIGNED.load(Ordering::Relaxed);
        let cells: Vec<Tagged> = vi.compute_cell_integrals_with_data(&tags);
        let f1 = vi.compute_face_integrals_with_data::<usize, TaggedFace>(&tags);
        let f2 = vi.compute_face_integrals_sym_with_data::<usize, TaggedFace>(&tags);
        let mut bad = MISALIGNED.load(Ordering::Relaxed) != before;
        bad |= cells.iter().any(|t| t.tag != t.idx);
        bad |= f1.iter().chain(f2.iter()).any(|f| f.integral().tag != f.integral().idx || f.integral().idx != f.left());
        if bad {
            bad_cases += 1;
            println!("MISALIGNED case {} (n = {}, mask = {})", c.origin, c.n(), c.mask.is_some());
        }
    }
    println!("vdata: cases={} inits={} misaligned_inits={} bad_cases={}", n, INITS.load(Ordering::Relaxed), MISALIGNED.load(Ordering::Relaxed), bad_cases);
    std::process::exit(if bad_cases > 0 { 1 } else { 0 });
}
