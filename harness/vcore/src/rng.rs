//! Deterministic PRNG (xoshiro256** seeded through splitmix64) and stream derivation.

#[derive(Clone, Debug)]
pub struct Rng {
    s: [u64; 4],
}

pub fn splitmix(x: &mut u64) -> u64 {
    *x = x.wrapping_add(0x9E3779B97F4A7C15);
    let mut z = *x;
    z = (z ^ (z >> 30)).wrapping_mul(0xBF58476D1CE4E5B9);
    z = (z ^ (z >> 27)).wrapping_mul(0x94D049BB133111EB);
    z ^ (z >> 31)
}

/// Mix a list of words (and a label) into one 64-bit stream id.
pub fn mix(label: &str, words: &[u64]) -> u64 {
    let mut h: u64 = 0xcbf29ce484222325;
    for b in label.bytes() {
        h = (h ^ b as u64).wrapping_mul(0x100000001b3);
    }
    for &w in words {
        let mut x = h ^ w;
        h = splitmix(&mut x) ^ h.rotate_left(17);
    }
    let mut x = h;
    splitmix(&mut x)
}

impl Rng {
    pub fn new(seed: u64) -> Self {
        let mut x = seed;
        let s = [splitmix(&mut x), splitmix(&mut x), splitmix(&mut x), splitmix(&mut x)];
        Rng { s }
    }

    pub fn stream(label: &str, words: &[u64]) -> Self {
        Self::new(mix(label, words))
    }

    pub fn u64(&mut self) -> u64 {
        let r = self.s[1].wrapping_mul(5).rotate_left(7).wrapping_mul(9);
        let t = self.s[1] << 17;
        self.s[2] ^= self.s[0];
        self.s[3] ^= self.s[1];
        self.s[1] ^= self.s[2];
        self.s[0] ^= self.s[3];
        self.s[2] ^= t;
        self.s[3] = self.s[3].rotate_left(45);
        r
    }

    /// uniform in [0, 1)
    pub fn f(&mut self) -> f64 {
        (self.u64() >> 11) as f64 / (1u64 << 53) as f64
    }

    /// uniform in [lo, hi)
    pub fn range(&mut self, lo: f64, hi: f64) -> f64 {
        lo + (hi - lo) * self.f()
    }

    pub fn below(&mut self, n: usize) -> usize {
        debug_assert!(n > 0);
        (self.u64() % n as u64) as usize
    }

    pub fn bool(&mut self) -> bool {
        self.u64() & 1 == 1
    }

    pub fn chance(&mut self, p: f64) -> bool {
        self.f() < p
    }

    pub fn pick<'a, T>(&mut self, xs: &'a [T]) -> &'a T {
        &xs[self.below(xs.len())]
    }

    /// standard normal (Box-Muller)
    pub fn gauss(&mut self) -> f64 {
        let u1 = 1.0 - self.f();
        let u2 = self.f();
        (-2.0 * u1.ln()).sqrt() * (2.0 * std::f64::consts::PI * u2).cos()
    }

    pub fn shuffle<T>(&mut self, xs: &mut [T]) {
        for i in (1..xs.len()).rev() {
            let j = self.below(i + 1);
            xs.swap(i, j);
        }
    }

    /// integer in [lo, hi] (inclusive)
    pub fn irange(&mut self, lo: i64, hi: i64) -> i64 {
        let span = (hi - lo) as u64 + 1;
        lo + (self.u64() % span) as i64
    }
}
