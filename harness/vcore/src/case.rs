//! Inputs: the `Case` type, (de)serialisation with exact bit patterns, validity filter and the seeded
//! input families.

use crate::rng::Rng;
use glam::DVec3;
use serde_json::{json, Value};

#[derive(Clone, Debug)]
pub struct Case {
    pub family: String,
    pub dim: usize,
    pub periodic: bool,
    pub anchor: DVec3,
    pub width: DVec3,
    pub pts: Vec<DVec3>,
    pub mask: Option<Vec<bool>>,
    /// free-form provenance: stream label, case number, seed
    pub origin: String,
}

pub fn f2hex(x: f64) -> String {
    format!("{:016x}", x.to_bits())
}
pub fn hex2f(s: &str) -> f64 {
    f64::from_bits(u64::from_str_radix(s, 16).expect("bad hex float"))
}
pub fn v2json(v: DVec3) -> Value {
    json!([f2hex(v.x), f2hex(v.y), f2hex(v.z)])
}
pub fn json2v(v: &Value) -> DVec3 {
    let a = v.as_array().expect("vector");
    DVec3::new(
        hex2f(a[0].as_str().unwrap()),
        hex2f(a[1].as_str().unwrap()),
        hex2f(a[2].as_str().unwrap()),
    )
}

impl Case {
    pub fn n(&self) -> usize {
        self.pts.len()
    }

    pub fn to_json(&self) -> Value {
        json!({
            "family": self.family,
            "dim": self.dim,
            "periodic": self.periodic,
            "anchor_bits": v2json(self.anchor),
            "width_bits": v2json(self.width),
            "anchor": [self.anchor.x, self.anchor.y, self.anchor.z],
            "width": [self.width.x, self.width.y, self.width.z],
            "n": self.pts.len(),
            "pts_bits": self.pts.iter().map(|&p| v2json(p)).collect::<Vec<_>>(),
            "mask": self.mask.as_ref().map(|m| m.iter().map(|&b| if b { 1 } else { 0 }).collect::<Vec<u8>>()),
            "origin": self.origin,
        })
    }

    /// Short human readable description (for evidence samples): no full point list above 6 points.
    pub fn summary(&self) -> Value {
        let k = self.pts.len().min(4);
        json!({
            "family": self.family, "dim": self.dim, "periodic": self.periodic, "n": self.pts.len(),
            "anchor": [self.anchor.x, self.anchor.y, self.anchor.z],
            "width": [self.width.x, self.width.y, self.width.z],
            "first_points": self.pts[..k].iter().map(|p| vec![p.x, p.y, p.z]).collect::<Vec<_>>(),
            "mask_true": self.mask.as_ref().map(|m| m.iter().filter(|&&b| b).count()),
            "origin": self.origin,
        })
    }

    pub fn from_json(v: &Value) -> Case {
        Case {
            family: v["family"].as_str().unwrap_or("?").to_string(),
            dim: v["dim"].as_u64().unwrap() as usize,
            periodic: v["periodic"].as_bool().unwrap(),
            anchor: json2v(&v["anchor_bits"]),
            width: json2v(&v["width_bits"]),
            pts: v["pts_bits"].as_array().unwrap().iter().map(json2v).collect(),
            mask: v["mask"].as_array().map(|a| a.iter().map(|x| x.as_u64().unwrap() != 0).collect()),
            origin: v["origin"].as_str().unwrap_or("").to_string(),
        }
    }

    pub fn hash(&self) -> u64 {
        let mut d = crate::digest::Digest::new();
        d.usize(self.dim);
        d.byte(self.periodic as u8);
        d.v3(self.anchor);
        d.v3(self.width);
        for p in &self.pts {
            d.v3(*p);
        }
        if let Some(m) = &self.mask {
            for &b in m {
                d.byte(b as u8 + 1);
            }
        }
        d.0
    }

    /// Anchor and width after the documented normalisation of the unused axes (unit thickness centred on 0).
    pub fn norm_box(&self) -> (DVec3, DVec3) {
        let mut a = self.anchor;
        let mut w = self.width;
        if self.dim <= 2 {
            a.z = -0.5;
            w.z = 1.;
        }
        if self.dim == 1 {
            a.y = -0.5;
            w.y = 1.;
        }
        (a, w)
    }

    /// Generators projected onto the active subspace.
    pub fn proj_pts(&self) -> Vec<DVec3> {
        self.pts.iter().map(|&p| project(p, self.dim)).collect()
    }

    /// measure of the box: product of the active widths
    pub fn box_measure(&self) -> f64 {
        (0..self.dim).map(|k| self.width[k]).product()
    }

    /// largest active width
    pub fn lmax(&self) -> f64 {
        (0..self.dim).map(|k| self.width[k]).fold(0., f64::max)
    }
    pub fn lmin(&self) -> f64 {
        (0..self.dim).map(|k| self.width[k]).fold(f64::INFINITY, f64::min)
    }
    /// largest coordinate magnitude of the (normalised) box
    pub fn mag(&self) -> f64 {
        let (a, w) = self.norm_box();
        a.abs().max((a + w).abs()).max_element()
    }

    /// Validity by the definition in C01: finite, positive widths, inside the closed box on the active axes,
    /// pairwise distinct after projection and modulo the period. Returns a reason when invalid.
    pub fn validity(&self) -> Result<(), String> {
        if !(self.anchor.is_finite() && self.width.is_finite()) {
            return Err("non-finite box".into());
        }
        for k in 0..self.dim {
            if !(self.width[k] > 0.) {
                return Err("non-positive width".into());
            }
        }
        if self.pts.is_empty() {
            return Err("no generators".into());
        }
        for p in &self.pts {
            if !p.is_finite() {
                return Err("non-finite generator".into());
            }
            for k in 0..self.dim {
                if p[k] < self.anchor[k] || p[k] > self.anchor[k] + self.width[k] {
                    return Err("generator outside closed box".into());
                }
            }
        }
        // distinctness: O(n log n) through sorting of the projected / wrapped keys
        let mut keys: Vec<[u64; 3]> = self
            .pts
            .iter()
            .map(|&p| {
                let mut q = project(p, self.dim);
                if self.periodic {
                    for k in 0..self.dim {
                        if q[k] == self.anchor[k] + self.width[k] {
                            q[k] = self.anchor[k];
                        }
                    }
                }
                // normalise -0.0
                [(q.x + 0.0).to_bits(), (q.y + 0.0).to_bits(), (q.z + 0.0).to_bits()]
            })
            .collect();
        keys.sort();
        for i in 1..keys.len() {
            if keys[i] == keys[i - 1] {
                return Err("duplicate generators".into());
            }
        }
        if let Some(m) = &self.mask {
            if m.len() != self.pts.len() {
                return Err("mask length".into());
            }
        }
        Ok(())
    }

    /// Drop generators that duplicate an earlier one (after projection / modulo period).
    pub fn dedup(&mut self) {
        let mut seen = std::collections::HashSet::new();
        let mut out = vec![];
        for &p in &self.pts {
            let mut q = project(p, self.dim);
            if self.periodic {
                for k in 0..self.dim {
                    if q[k] == self.anchor[k] + self.width[k] {
                        q[k] = self.anchor[k];
                    }
                }
            }
            let key = [(q.x + 0.0).to_bits(), (q.y + 0.0).to_bits(), (q.z + 0.0).to_bits()];
            if seen.insert(key) {
                out.push(p);
            }
        }
        self.pts = out;
        self.mask = None;
    }
}

pub fn project(p: DVec3, dim: usize) -> DVec3 {
    match dim {
        1 => DVec3::new(p.x, 0., 0.),
        2 => DVec3::new(p.x, p.y, 0.),
        _ => p,
    }
}

// ------------------------------------------------------------------------------------------------
// Box shapes

pub const ASPECTS: [[f64; 3]; 4] = [[1., 1., 1.], [1., 0.37, 2.9], [30., 4.6, 0.29], [1., 100., 0.01]];
pub const SCALES: [f64; 7] = [1., 1., 1e-3, 1e3, 7.3e5, 2.5e9, 1e-9];
/// anchors in units of the widths. Entries 3 and 4: boxes that straddle the origin asymmetrically (coordinates of both signs,
/// the negative part short or long), which the symmetric [-0.5] box and the one-signed ones never produce.
pub const OFFSETS: [[f64; 3]; 7] = [[0., 0., 0.], [-0.5, -0.5, -0.5], [3.3, -7.1, 11.9], [-0.1, -0.9, -0.3], [-0.27, -0.02, -0.6], [1e3, -1e3, 1e2], [1e5, 1e5, -1e5]];

#[derive(Clone, Copy, Debug)]
pub struct BoxShape {
    pub anchor: DVec3,
    pub width: DVec3,
}

/// exploration aid: VERIF_BOXSCALE=<x> forces the overall scale of every generated box
fn forced_scale() -> Option<f64> {
    std::env::var("VERIF_BOXSCALE").ok().and_then(|s| s.parse().ok())
}

/// The box generator of the first sessions (five anchors): the fixed hostile corpus and its committed baseline are defined
/// through it and must not change when `OFFSETS` grows.
pub fn random_box_v1(r: &mut Rng) -> BoxShape {
    const OFFSETS_V1: [[f64; 3]; 5] = [[0., 0., 0.], [-0.5, -0.5, -0.5], [3.3, -7.1, 11.9], [1e3, -1e3, 1e2], [1e5, 1e5, -1e5]];
    let asp = DVec3::from_array(*r.pick(&ASPECTS));
    let scale = forced_scale().unwrap_or(*r.pick(&SCALES));
    let width = asp * scale;
    let off = DVec3::from_array(*r.pick(&OFFSETS_V1));
    BoxShape {
        anchor: off * width,
        width,
    }
}

pub fn random_box(r: &mut Rng) -> BoxShape {
    let asp = DVec3::from_array(*r.pick(&ASPECTS));
    let scale = forced_scale().unwrap_or(*r.pick(&SCALES));
    let width = asp * scale;
    let off = DVec3::from_array(*r.pick(&OFFSETS));
    BoxShape {
        anchor: off * width,
        width,
    }
}

/// Boxes without the extreme aspect ratios and without the large offset (for monitors whose metric
/// comparison needs well-conditioned cells).
pub fn mild_box(r: &mut Rng) -> BoxShape {
    let asp = DVec3::from_array(*r.pick(&ASPECTS[..3]));
    let scale = forced_scale().unwrap_or(*r.pick(&SCALES));
    let width = asp * scale;
    let off = DVec3::from_array(*r.pick(&OFFSETS[..5]));
    BoxShape {
        anchor: off * width,
        width,
    }
}

pub const SIZES_QUICK: [usize; 11] = [1, 2, 3, 4, 5, 8, 13, 27, 50, 100, 200];

// ------------------------------------------------------------------------------------------------
// Families. Each returns unit-cube coordinates in [0,1]^3; `finish` maps them into the box.

pub const CONDITIONED: [&str; 11] =
    ["uniform", "uniform", "lattice", "blattice", "coplanar", "mildcluster", "tiny", "clattice", "star", "rows", "gradient"];

pub const ALL_FAMILIES: [&str; 17] = ["closepairs", "star", "rows", "gradient", "uniform", "lattice", "clattice", "blattice", "coplanar", "mildcluster", "tiny", "nearlattice", "walls", "cluster", "cosphere", "slabwalls", "nearpairs"];

fn unit_points(family: &str, n: usize, dim: usize, r: &mut Rng) -> Vec<DVec3> {
    let mut u = vec![];
    let rnd = |r: &mut Rng| DVec3::new(r.f(), r.f(), r.f());
    match family {
        "uniform" => {
            for _ in 0..n {
                u.push(rnd(r));
            }
        }
        // cell-centred simple lattice, possibly different counts per axis
        "lattice" => {
            let kmax = match dim {
                1 => 60,
                2 => 12,
                _ => 6,
            };
            let k = [1 + r.below(kmax), 1 + r.below(kmax), 1 + r.below(kmax)];
            let k = if r.bool() { [k[0]; 3] } else { k };
            let kk = [k[0], if dim >= 2 { k[1] } else { 1 }, if dim >= 3 { k[2] } else { 1 }];
            for i in 0..kk[0] {
                for j in 0..kk[1] {
                    for l in 0..kk[2] {
                        u.push(DVec3::new(
                            (i as f64 + 0.5) / kk[0] as f64,
                            (j as f64 + 0.5) / kk[1] as f64,
                            (l as f64 + 0.5) / kk[2] as f64,
                        ));
                    }
                }
            }
        }
        // centred lattice: cell centres plus the interior cell corners (bcc-like), all strictly inside
        "clattice" => {
            let kmax = match dim {
                1 => 30,
                2 => 8,
                _ => 4,
            };
            let k = 1 + r.below(kmax);
            let kk = [k, if dim >= 2 { k } else { 1 }, if dim >= 3 { k } else { 1 }];
            for i in 0..kk[0] {
                for j in 0..kk[1] {
                    for l in 0..kk[2] {
                        u.push(DVec3::new(
                            (i as f64 + 0.5) / kk[0] as f64,
                            (j as f64 + 0.5) / kk[1] as f64,
                            (l as f64 + 0.5) / kk[2] as f64,
                        ));
                    }
                }
            }
            let rng1 = |kx: usize, active: bool| if active { 1..kx } else { 0..1 };
            for i in rng1(kk[0], true) {
                for j in rng1(kk[1], dim >= 2) {
                    for l in rng1(kk[2], dim >= 3) {
                        u.push(DVec3::new(
                            i as f64 / kk[0] as f64,
                            if dim >= 2 { j as f64 / kk[1] as f64 } else { 0.5 },
                            if dim >= 3 { l as f64 / kk[2] as f64 } else { 0.5 },
                        ));
                    }
                }
            }
        }
        // lattice including the box faces, edges and corners
        "blattice" => {
            let kmax = match dim {
                1 => 40,
                2 => 8,
                _ => 4,
            };
            let k = 1 + r.below(kmax);
            let kk = [k, if dim >= 2 { k } else { 0 }, if dim >= 3 { k } else { 0 }];
            for i in 0..=kk[0] {
                for j in 0..=kk[1] {
                    for l in 0..=kk[2] {
                        u.push(DVec3::new(
                            i as f64 / k as f64,
                            if dim >= 2 { j as f64 / k as f64 } else { 0.5 },
                            if dim >= 3 { l as f64 / k as f64 } else { 0.5 },
                        ));
                    }
                }
            }
        }
        "coplanar" => {
            // random points in a common plane (3D) / on a common line (2D, 3D); axis aligned or oblique
            let mode = r.below(4);
            for _ in 0..n {
                let (a, b) = (r.f(), r.f());
                u.push(match mode {
                    0 => DVec3::new(a, b, 0.5),
                    1 => DVec3::new(a, 0.25 + 0.5 * a, b),
                    2 => DVec3::new(a, 0.5, 0.5),
                    _ => DVec3::new(a, 0.125 + 0.75 * a, 0.25 + 0.5 * a),
                });
            }
        }
        "mildcluster" => {
            let d = *r.pick(&[1e-1, 1e-2, 1e-3]);
            let c0 = rnd(r) * 0.6 + 0.2;
            for i in 0..n {
                if i % 3 == 2 {
                    u.push(rnd(r));
                } else {
                    u.push(c0 + d * (rnd(r) - 0.5));
                }
            }
        }
        "tiny" => {
            let m = 1 + r.below(5);
            for _ in 0..m {
                u.push(rnd(r));
            }
        }
        // one central generator surrounded by a noisy shell of all the others: the central cell has about n - 1 faces
        // (large boundary cycles, many vertices), the shell cells are long wedges
        "star" => {
            let c0 = DVec3::splat(0.5) + 0.05 * (rnd(r) - 0.5);
            u.push(c0);
            let rad = 0.2 + 0.2 * r.f();
            let noise = *r.pick(&[0.3, 0.05, 0.005]);
            for _ in 1..n.max(2) {
                let mut d = DVec3::new(r.gauss(), if dim >= 2 { r.gauss() } else { 0. }, if dim >= 3 { r.gauss() } else { 0. });
                if d.length() < 1e-3 {
                    d = DVec3::X;
                }
                let d = d / d.length();
                let mut p = c0 + d * rad * (1. + noise * (r.f() - 0.5));
                if dim < 3 {
                    p.z = r.f();
                }
                if dim < 2 {
                    p.y = r.f();
                }
                u.push(p);
            }
        }
        // a jittered row (or sheet) of generators: cells span the whole box across the row; with periodic boundaries
        // they neighbour their own images
        "rows" => {
            let sheet = dim >= 3 && r.bool();
            let jit = *r.pick(&[0.2, 0.02, 0.002]);
            let ax = r.below(3);
            for _ in 0..n {
                let mut p = DVec3::splat(0.5) + jit * (rnd(r) - 0.5);
                p[ax] = r.f();
                if sheet {
                    p[(ax + 1) % 3] = r.f();
                }
                u.push(p);
            }
        }
        // strong density gradient towards one corner: neighbour distances span several orders of magnitude
        "gradient" => {
            let pw = *r.pick(&[2, 3]);
            let flip = [r.bool(), r.bool(), r.bool()];
            for _ in 0..n {
                let q = rnd(r);
                let mut p = DVec3::new(q.x.powi(pw), q.y.powi(pw), q.z.powi(pw)) * 0.98 + 0.01;
                for a in 0..3 {
                    if flip[a] {
                        p[a] = 1. - p[a];
                    }
                }
                u.push(p);
            }
        }
        // pairs of generators 1e-4 .. 1e-6 box widths apart among ordinary ones: two nearly parallel faces on every
        // common neighbour (thin wedges between them)
        "closepairs" => {
            let d = *r.pick(&[1e-4, 1e-5, 1e-6]);
            let mut k = 0;
            while u.len() < n.max(2) {
                let p = rnd(r) * 0.9 + 0.05;
                u.push(p);
                if k % 3 == 0 {
                    let mut dir = DVec3::new(r.gauss(), r.gauss(), r.gauss());
                    if dir.length() < 1e-3 {
                        dir = DVec3::ONE;
                    }
                    u.push(p + d * dir / dir.length());
                }
                k += 1;
            }
        }
        // ---- hostile families (used through the fixed corpus / class-level known findings) ----
        "nearlattice" => {
            let k = 2 + r.below(4);
            let pert = *r.pick(&[1e-6, 1e-9, 1e-12]);
            let kk = [k, if dim >= 2 { k } else { 1 }, if dim >= 3 { k } else { 1 }];
            for i in 0..kk[0] {
                for j in 0..kk[1] {
                    for l in 0..kk[2] {
                        u.push(DVec3::new(
                            (i as f64 + 0.5) / kk[0] as f64 + pert * (r.f() - 0.5),
                            (j as f64 + 0.5) / kk[1] as f64 + pert * (r.f() - 0.5),
                            (l as f64 + 0.5) / kk[2] as f64 + pert * (r.f() - 0.5),
                        ));
                    }
                }
            }
        }
        "walls" => {
            for i in 0..n {
                let mut p = rnd(r);
                let m = 1 + r.below(3);
                for _ in 0..m {
                    let ax = r.below(3);
                    p[ax] = (i % 2) as f64;
                }
                u.push(p);
            }
        }
        "cluster" => {
            let d = *r.pick(&[1e-6, 1e-9, 1e-12]);
            let c0 = rnd(r) * 0.8 + 0.1;
            for i in 0..n {
                if i % 4 == 3 {
                    u.push(rnd(r));
                } else {
                    u.push(c0 + d * (rnd(r) - 0.5));
                }
            }
        }
        "cosphere" => {
            let c0 = DVec3::splat(0.5);
            let rad = 0.25;
            let base = [
                (3., 4., 12.),
                (12., 3., 4.),
                (4., 12., 3.),
                (0., 5., 12.),
                (5., 12., 0.),
                (12., 0., 5.),
                (0., 0., 13.),
                (13., 0., 0.),
                (0., 13., 0.),
            ];
            for i in 0..n.min(60) {
                let b = *r.pick(&base);
                let s = DVec3::new(
                    if r.bool() { 1. } else { -1. },
                    if r.bool() { 1. } else { -1. },
                    if r.bool() { 1. } else { -1. },
                );
                u.push(c0 + rad / 13. * DVec3::new(b.0, b.1, b.2) * s);
                if i % 5 == 0 {
                    u.push(c0);
                }
            }
        }
        "slabwalls" => {
            let k = 2 + r.below(4);
            for i in 0..k {
                for j in 0..k {
                    let x = (i as f64 + 0.5) / k as f64;
                    let y = (j as f64 + 0.5) / k as f64;
                    let z = [0., 1., 0.5, 0.25][(i + j) % 4];
                    u.push(DVec3::new(x, y, z));
                }
            }
        }
        "nearpairs" => {
            for _ in 0..(n / 2).max(1) {
                let p = rnd(r) * 0.9 + 0.05;
                let d = *r.pick(&[1e-7, 1e-10, 1e-13]);
                u.push(p);
                u.push(p + d * (rnd(r) - 0.5));
            }
        }
        other => panic!("unknown family {other}"),
    }
    u
}

/// Map unit coordinates into the box, clamp, de-duplicate.
pub fn finish(family: &str, unit: Vec<DVec3>, b: BoxShape, dim: usize, periodic: bool, origin: String) -> Case {
    let hi = b.anchor + b.width;
    let pts: Vec<DVec3> = unit.iter().map(|&u| (b.anchor + u * b.width).clamp(b.anchor, hi)).collect();
    let mut c = Case {
        family: family.to_string(),
        dim,
        periodic,
        anchor: b.anchor,
        width: b.width,
        pts,
        mask: None,
        origin,
    };
    c.dedup();
    c
}

pub struct GenOpts<'a> {
    pub families: &'a [&'a str],
    pub dims: &'a [usize],
    pub sizes: &'a [usize],
    pub periodic: Option<bool>,
    pub mild_box: bool,
}

impl Default for GenOpts<'static> {
    fn default() -> Self {
        GenOpts {
            families: &CONDITIONED,
            dims: &[3, 3, 3, 2, 2, 1],
            sizes: &SIZES_QUICK,
            periodic: None,
            mild_box: false,
        }
    }
}

/// Generate case number `k` of the stream (label, tier, seed).
pub fn gen_case(label: &str, tier: &str, seed: u64, k: u64, o: &GenOpts) -> Case {
    let mut r = Rng::stream(label, &[crate::rng::mix(tier, &[]), seed, k]);
    let mut family = *r.pick(o.families);
    // exploration aid: VERIF_FAMILY=<name> forces the family of every generated case
    let forced = std::env::var("VERIF_FAMILY").ok();
    if let Some(f) = forced.as_deref() {
        if let Some(k) = ALL_FAMILIES.iter().find(|x| **x == f) {
            family = k;
        }
    }
    let dim = *r.pick(o.dims);
    let mut periodic = o.periodic.unwrap_or_else(|| r.bool());
    let mut b = if o.mild_box { mild_box(&mut r) } else { random_box(&mut r) };
    // ---- the conditioned domain (DESIGN 4.2): combinations on which the pinned tree showed failures in a survey of
    // 300 000 inputs (finding F5) are not generated here; they are covered by the fixed hostile corpus of C05.
    if std::env::var("VERIF_SURVEY").is_err() {
        // centred lattices with periodic boundaries (2D/3D) and coplanar sets in periodic 3D boxes
        let excluded = (family == "clattice" && periodic && dim >= 2) || (family == "coplanar" && periodic && dim >= 2);
        if excluded {
            if o.periodic.is_none() {
                periodic = false;
            } else {
                family = if family == "clattice" { "lattice" } else { "uniform" };
            }
        }
        // anchors 1e5 widths away from the origin: only the families that were clean there; clusters only with
        // anchors up to ~12 widths away (at 1e3 widths two panics were seen in ~15 000 inputs of 1000 generators)
        // (`rows` was in this list until the fifth session: a periodic input of 1 000 generators in rows, box 1 : 100 : 0.01,
        // anchor 1e5 widths away, panicked in the thorough tier of C13 - finding F5; survey sizes had stopped at 200)
        let far_ok = matches!(family, "uniform" | "lattice" | "blattice" | "tiny" | "star" | "gradient");
        let limit = if family == "mildcluster" { 50. } else { 2e3 };
        while !far_ok && (b.anchor / b.width).abs().max_element() > limit {
            b = if o.mild_box { mild_box(&mut r) } else { random_box(&mut r) };
        }
    }
    let n = *r.pick(o.sizes);
    let unit = unit_points(family, n, dim, &mut r);
    // ---- extreme overall scales (one case in eight, drawn last so that the other seven are the cases of the earlier
    // sessions): boxes of 1e-15 and 1e-30 (the absolute term of the float filter then sends EVERY clip decision to the exact
    // predicate) in every dimensionality, and of 1e15 / 1e30 in 3D only - in 1D/2D the unit thickness of the unused axes is
    // then below the rounding of the active coordinates (finding F12). Not for lattices with generators on the walls: a
    // generator on a wall is its own mirror image, which the exact path cannot orient (finding F5; survey at 1e-15: 319 of
    // 9 925 inputs panicked, all of them `blattice`, every other family clean at 1e-15, 1e-30 and - in 3D - 1e30).
    if forced_scale().is_none() && r.below(8) == 0 && family != "blattice" {
        let f = if dim == 3 { *r.pick(&[1e-15, 1e-30, 1e15, 1e30]) } else { *r.pick(&[1e-15, 1e-30]) };
        let rel = b.anchor / b.width;
        b.width = b.width / b.width.max_element() * f;
        b.anchor = rel * b.width;
    }
    let mut c = finish(family, unit, b, dim, periodic, format!("{label}/{tier}/seed{seed}/case{k}"));
    periodic_wall_generators(&mut c, label, tier, seed, k);
    c
}

/// The same configuration in a box whose largest width is `f` (relative anchor and relative generator positions kept): at
/// 1e-15 and below the absolute term of the float filter sends EVERY clip decision to the exact predicate.
pub fn rescaled(c: &Case, f: f64) -> Case {
    let rel = c.anchor / c.width;
    let width = c.width / c.width.max_element() * f;
    let anchor = rel * width;
    let hi = anchor + width;
    let mut out = c.clone();
    out.pts = c.pts.iter().map(|&p| (anchor + (p - c.anchor) / c.width * width).clamp(anchor, hi)).collect();
    out.anchor = anchor;
    out.width = width;
    out.origin.push_str(&format!("/rescaled{f:e}"));
    out.dedup();
    out
}

/// Periodic inputs with generators EXACTLY on the faces / edges / corners of the primary box, the upper ones (coordinate ==
/// anchor + width, what `rem_euclid` or `x - floor(x)` style wrapping returns for a tiny negative coordinate) in two cases of
/// three: one periodic case in six of the unstructured families gets 1-3 such generators. In a periodic box the primary walls
/// are not special for the algorithm (the initial cell is the tripled box), so these inputs belong to the conditioned domain
/// (survey on the unchanged tree: DESIGN 8.8). Drawn from a stream of its own: the other cases are those of the earlier sessions.
pub fn periodic_wall_generators(c: &mut Case, label: &str, tier: &str, seed: u64, k: u64) {
    if !c.periodic || c.pts.is_empty() {
        return;
    }
    if !matches!(c.family.as_str(), "uniform" | "tiny" | "mildcluster" | "gradient" | "star" | "rows" | "anisotropic") {
        return;
    }
    let mut r = Rng::stream(&format!("{label}onwall"), &[crate::rng::mix(tier, &[]), seed, k]);
    if std::env::var("VERIF_ONWALL").is_err() && r.below(6) != 0 {
        return;
    }
    let m = 1 + r.below(3);
    for _ in 0..m {
        let i = r.below(c.pts.len());
        let mut any = false;
        for ax in 0..c.dim {
            if r.below(2) == 0 {
                continue;
            }
            any = true;
            c.pts[i][ax] = if r.below(3) == 0 { c.anchor[ax] } else { c.anchor[ax] + c.width[ax] };
        }
        if !any {
            let ax = r.below(c.dim);
            c.pts[i][ax] = c.anchor[ax] + c.width[ax];
        }
    }
    c.dedup();
    c.origin.push_str("/onwall");
}


/// Giant cell: one central generator inside a nearly spherical shell (radial noise 1e-4) of n - 1 others in a cubic box;
/// only the centre and two shell cells are selected by the mask. The central cell has about n faces, 2n vertices and
/// 6n face-vertex connections.
pub fn shell_case(label: &str, tier: &str, seed: u64, k: u64, n: usize) -> Case {
    let mut g = Rng::stream(&format!("{label}giant"), &[seed, k, n as u64]);
    let l = *g.pick(&[1., 1e-3, 1e3]);
    let width = DVec3::splat(l);
    let anchor = DVec3::from_array(*g.pick(&[[0., 0., 0.], [-0.5, -0.5, -0.5], [3.3, -7.1, 11.9]])) * l;
    let c0 = anchor + width * (DVec3::splat(0.5) + 0.02 * DVec3::new(g.f() - 0.5, g.f() - 0.5, g.f() - 0.5));
    let rad = l * (0.25 + 0.15 * g.f());
    let mut pts = vec![c0];
    while pts.len() < n {
        let d = DVec3::new(g.gauss(), g.gauss(), g.gauss());
        if d.length() < 1e-3 {
            continue;
        }
        pts.push(c0 + d / d.length() * rad * (1. + 1e-4 * (g.f() - 0.5)));
    }
    let mut c = Case {
        family: "shell".into(),
        dim: 3,
        periodic: k % 2 == 1,
        anchor,
        width,
        pts,
        mask: None,
        origin: format!("{label}giant/{tier}/seed{seed}/case{k}/n{n}"),
    };
    c.dedup();
    let mut m = vec![false; c.n()];
    m[0] = true;
    for _ in 0..2 {
        let j = g.below(c.n());
        m[j] = true;
    }
    c.mask = Some(m);
    c
}

/// Drum input: one generator on the axis of a ring of m equidistant (or slightly jittered) generators, plus farther generators
/// on (or near) the axis. The ring turns the central cell into a prism with m side faces whose two m-gonal end caps lie on the box
/// walls; the bisector of an axis generator - visited after the ring, because it is farther away - then cuts off a whole cap:
/// ONE clip that removes m vertices (and creates m) at once, a boundary cycle of m triangles. Everything else in this harness
/// removes a handful of vertices per clip. Only the centre, two ring cells and the axis cells are constructed.
pub fn drum_case(label: &str, tier: &str, seed: u64, k: u64, m: usize) -> Case {
    let mut g = Rng::stream(&format!("{label}drum"), &[crate::rng::mix(tier, &[]), seed, k, m as u64]);
    let l = *g.pick(&[1., 1., 1e-3, 1e3]);
    let width = DVec3::splat(l);
    let anchor = DVec3::from_array(*g.pick(&[[0., 0., 0.], [-0.5, -0.5, -0.5], [3.3, -7.1, 11.9]])) * l;
    let axis = g.below(3);
    let (ax1, ax2) = ((axis + 1) % 3, (axis + 2) % 3);
    let c0 = anchor + width * (DVec3::splat(0.5) + 0.05 * DVec3::new(g.f() - 0.5, g.f() - 0.5, g.f() - 0.5));
    let rad = l * (0.08 + 0.1 * g.f());
    let jitter = *g.pick(&[0., 1e-6, 1e-3]);
    let mut pts = vec![c0];
    let phase = g.f();
    for i in 0..m {
        let phi = 2. * std::f64::consts::PI * (i as f64 + phase) / m as f64;
        let rr = rad * (1. + jitter * (g.f() - 0.5));
        let mut p = c0;
        p[ax1] += rr * phi.cos();
        p[ax2] += rr * phi.sin();
        p[axis] += rad * jitter * (g.f() - 0.5);
        pts.push(p);
    }
    // axis generators: farther away than the ring, on one or both sides, optionally slightly off the axis (oblique cap)
    let tilt = *g.pick(&[0., 0., 0.02, 0.3]);
    let both = g.bool();
    let mut axis_idx = vec![];
    for (q, sign) in [1.0f64, -1.0].iter().enumerate() {
        if q == 1 && !both {
            break;
        }
        let dist = rad * (1.15 + 1.2 * g.f());
        let mut p = c0;
        p[axis] += sign * dist;
        p[ax1] += tilt * dist * (g.f() - 0.5);
        p[ax2] += tilt * dist * (g.f() - 0.5);
        axis_idx.push(pts.len());
        pts.push(p);
    }
    let periodic = g.below(3) == 0;
    let mut c = Case {
        family: "drum".into(),
        dim: 3,
        periodic,
        anchor,
        width,
        pts,
        mask: None,
        origin: format!("{label}drum/{tier}/seed{seed}/case{k}/m{m}"),
    };
    c.dedup();
    if c.n() == m + 1 + axis_idx.len() {
        let mut mk = vec![false; c.n()];
        mk[0] = true;
        // an exactly equidistant ring (equidistant up to the rounding of cos / sin, that is) is co-circular, and a circle is
        // co-spherical with any further point: every in-sphere test inside a ring cell is a tie at rounding level (survey: 9 of
        // 1280 inputs panicked, all of them with jitter 0 and ring cells constructed - finding F5). With jitter 0 only the centre
        // cell is constructed (its own tests are far from ties), with jitter >= 1e-6 also two ring cells.
        if jitter > 0. {
            mk[1 + g.below(m)] = true;
            mk[1 + g.below(m)] = true;
        }
        // the cells of the axis generators are NOT constructed for large rings: seen from an axis generator the ring is
        // (nearly) co-spherical with the centre, m bisectors pass (nearly) through one point - the regime of finding F5
        // (survey: 9 of 320 inputs panicked on the unchanged tree, all with m >= 129 and the axis cells constructed)
        let _ = axis_idx;
        if m > 64 || jitter == 0. || g.bool() {
            c.mask = Some(mk);
        }
    }
    c
}

/// Wedge input: a few ordinary generators in a cubic box near the origin plus one pair `d` box widths apart
/// (1e-6 <= d <= 1e-5; at 3e-7 one input in 90 000 panicked on the unchanged tree, finding F5): every common neighbour of the pair has two faces that are parallel within ~d/distance.
pub fn wedge_case(label: &str, tier: &str, seed: u64, k: u64) -> Case {
    let mut g = Rng::stream(&format!("{label}wedge"), &[seed, k]);
    let l = *g.pick(&[1., 1., 1e-3, 1e3]);
    let width = DVec3::splat(l);
    let anchor = DVec3::from_array(*g.pick(&[[0., 0., 0.], [-0.5, -0.5, -0.5]])) * l;
    let n = 4 + g.below(27);
    let mut pts: Vec<DVec3> = (0..n).map(|_| anchor + width * (DVec3::new(g.f(), g.f(), g.f()) * 0.9 + 0.05)).collect();
    let d = *g.pick(&[1e-5, 3e-6, 1e-6]);
    let mut dir = DVec3::new(g.gauss(), g.gauss(), g.gauss());
    if dir.length() < 1e-3 {
        dir = DVec3::ONE;
    }
    let j = g.below(n);
    let q = pts[j] + dir / dir.length() * d * l;
    pts.push(q);
    let mut c = Case {
        family: "wedge".into(),
        dim: 3,
        periodic: g.bool(),
        anchor,
        width,
        pts,
        mask: None,
        origin: format!("{label}wedge/{tier}/seed{seed}/case{k}"),
    };
    c.dedup();
    c
}

/// Zoom input: a compact, well separated group of generators (jittered grid of m^dim points, jitter half a spacing)
/// whose spacing is 1e-8 .. 1e-4 of the box width, in a periodic or reflective box, placed in the middle of the box or
/// across a wall / edge / corner (periodic: the group then straddles the periodic boundary and every close neighbour
/// of half of its cells is a wrapped one), optionally with a few far background generators. The local geometry is
/// ordinary; what is unusual is the ratio box width / spacing, at which quantities of the size W^2 and h^2 meet.
///
/// `hostile = false` (the conditioned domain): always inside graded shells. `hostile = true`: with or without them; without,
/// the unchanged tree panics with finding F5 (survey of 20 000 inputs: 3D 25 % at 1e-5, 48 % at 1e-6 .. 1e-8; 2D 0.4 % at 1e-7, 15 % at
/// 1e-8; 1D never): the rim cells reach half a box width into empty space. Not used by any check; exploration only
/// (`VERIF_ZOOM_HOSTILE=1 vmon Xzoom`).
pub fn zoom_case(label: &str, tier: &str, seed: u64, k: u64, hostile: bool) -> Case {
    let mut g = Rng::stream(&format!("{label}zoom"), &[crate::rng::mix(tier, &[]), seed, k]);
    let dim = *g.pick(&[3usize, 3, 2, 2, 1]);
    let scale = *g.pick(&[1., 1., 1e6, 1e-3]);
    let asp = DVec3::from_array(*g.pick(&[[1., 1., 1.], [1., 1., 1.], [1., 0.37, 2.9]]));
    let width = asp * scale;
    let anchor = DVec3::from_array(*g.pick(&[[0., 0., 0.], [0., 0., 0.], [-0.5, -0.5, -0.5]])) * width;
    let periodic = g.below(4) != 0;
    let mut wmin = f64::INFINITY;
    for ax in 0..dim {
        wmin = wmin.min(width[ax]);
    }
    let rel = *g.pick(&[1e-8, 1e-8, 3e-8, 1e-7, 1e-6, 1e-4]);
    let h = wmin * rel;
    let m = match dim {
        1 => 10 + g.below(150),
        2 => 4 + g.below(14),
        _ => 3 + g.below(5),
    };
    // centre of the group in units of the width, per axis: the middle, a wall (periodic: straddling), or anywhere
    let mut centre = DVec3::ZERO;
    for ax in 0..3 {
        // (reflective boxes: the group stays inside, generators exactly on a wall are finding F9)
        let f = match (g.below(4), periodic) {
            (0, _) => 0.5,
            (1, true) => 0.,
            (2, true) => 1.,
            (_, true) => g.f(),
            (_, false) => 0.1 + 0.8 * g.f(),
        };
        centre[ax] = anchor[ax] + f * width[ax];
    }
    let mm = [m, if dim >= 2 { m } else { 1 }, if dim >= 3 { m } else { 1 }];
    let mut pts = vec![];
    for i in 0..mm[0] {
        for j in 0..mm[1] {
            for l in 0..mm[2] {
                let idx = [i, j, l];
                let mut p = DVec3::ZERO;
                for ax in 0..3 {
                    if ax < dim {
                        let q = (idx[ax] as f64 + 0.5 + 0.5 * (g.f() - 0.5) - 0.5 * mm[ax] as f64) * h;
                        let mut x = centre[ax] + q;
                        if periodic {
                            if x < anchor[ax] {
                                x += width[ax];
                            }
                            if x >= anchor[ax] + width[ax] {
                                x -= width[ax];
                            }
                        }
                        p[ax] = x.clamp(anchor[ax], anchor[ax] + width[ax]);
                    } else {
                        p[ax] = anchor[ax] + g.f() * width[ax];
                    }
                }
                pts.push(p);
            }
        }
    }
    // graded surroundings, as in a zoom simulation: shells of generators around the group whose radius (and spacing)
    // grows geometrically until the box is filled. Without them the cells on the rim of the group reach half a box width
    // into empty space and end in vertices cut out by planes that are parallel within h / W - the regime of finding F5
    // (survey: 25 % panics in 3D at h = 1e-5 W). `hostile` inputs come with and without.
    let graded = !hostile || g.bool();
    if graded {
        let per_shell = match dim {
            1 => 2,
            2 => 14,
            _ => 44,
        };
        let mut rad = 0.5 * (m as f64) * h * (dim as f64).sqrt() + 0.8 * h;
        let grow = match dim {
            1 => 1.5,
            2 => 1.45,
            _ => 1.5,
        };
        let mut first = true;
        while rad < 0.7 * wmin {
            for q in 0..per_shell {
                let mut dir = DVec3::ZERO;
                loop {
                    for ax in 0..dim {
                        dir[ax] = g.gauss();
                    }
                    if dir.length() > 1e-3 {
                        break;
                    }
                }
                if dim == 1 {
                    dir = DVec3::new(if q == 0 { 1. } else { -1. }, 0., 0.);
                }
                let rr = rad * (1. + 0.12 * (g.f() - 0.5)) * if first { 1. } else { 1. + 0.2 * (g.f() - 0.5) };
                let mut p = centre + dir / dir.length() * rr;
                let mut inside = true;
                for ax in 0..3 {
                    if ax >= dim {
                        p[ax] = anchor[ax] + 0.5 * width[ax];
                        continue;
                    }
                    if periodic {
                        // at most one wrap: farther points would come back onto nearer shells
                        if p[ax] < anchor[ax] {
                            p[ax] += width[ax];
                        } else if p[ax] >= anchor[ax] + width[ax] {
                            p[ax] -= width[ax];
                        }
                        // keep the far shells (which overlap their own images) out of the half of the box that is already covered
                        if rr > 0.5 * width[ax] {
                            inside = false;
                        }
                    }
                    if !(p[ax] > anchor[ax] && p[ax] < anchor[ax] + width[ax]) {
                        inside = false;
                    }
                }
                if inside {
                    pts.push(p);
                }
            }
            first = false;
            rad *= grow;
        }
    }
    let nbg = *g.pick(&[0usize, 3, 10]);
    for _ in 0..nbg {
        pts.push(anchor + DVec3::new(g.f(), g.f(), g.f()) * width);
    }
    let mut c = Case {
        family: "zoom".into(),
        dim,
        periodic,
        anchor,
        width,
        pts,
        mask: None,
        origin: format!("{label}zoom/{tier}/seed{seed}/case{k}"),
    };
    c.dedup();
    c
}

/// Generate one case of an explicit family (used for the corpus and the hostile exploration).
pub fn gen_family_case(label: &str, family: &str, seed: u64, k: u64, dim: usize, periodic: bool, n: usize) -> Case {
    gen_family_case_in(label, family, seed, k, dim, periodic, n, BoxKind::Random)
}

#[derive(Clone, Copy, Debug, PartialEq)]
pub enum BoxKind {
    Random,
    /// anchor 1e5 widths away from the origin
    FarOffset,
    /// overall scale 1e-9 (the absolute term of the float filter then dominates)
    TinyScale,
}

#[allow(clippy::too_many_arguments)]
pub fn gen_family_case_in(label: &str, family: &str, seed: u64, k: u64, dim: usize, periodic: bool, n: usize, kind: BoxKind) -> Case {
    let mut r = Rng::stream(label, &[crate::rng::mix(family, &[]), seed, k, dim as u64, periodic as u64, n as u64, kind as u64]);
    let mut b = random_box_v1(&mut r);
    match kind {
        BoxKind::Random => {}
        BoxKind::FarOffset => {
            let asp = b.width / b.width.max_element();
            b.width = asp * *r.pick(&[1., 1e-3, 1e3]);
            b.anchor = DVec3::new(1e5, 1e5, -1e5) * b.width;
        }
        BoxKind::TinyScale => {
            let rel = b.anchor / b.width;
            b.width = b.width / b.width.max_element() * 1e-9;
            b.anchor = rel * b.width;
        }
    }
    let unit = unit_points(family, n, dim, &mut r);
    let tag = match kind {
        BoxKind::Random => "",
        BoxKind::FarOffset => "+far",
        BoxKind::TinyScale => "+tiny",
    };
    finish(family, unit, b, dim, periodic, format!("{label}/{family}{tag}/d{dim}p{}n{n}/seed{seed}/case{k}", periodic as u8))
}

/// The fixed hostile corpus (seed independent). `quick` = the subset run by the quick tier.
pub fn corpus(quick: bool) -> Vec<Case> {
    let kmax: u64 = if quick { 2 } else { 14 };
    let mut v = vec![];
    let hostile: [(&str, &[usize]); 8] = [("nearlattice", &[3, 2, 1]), ("walls", &[3, 2, 1]), ("cluster", &[3, 2, 1]), ("cosphere", &[3]), ("slabwalls", &[3]), ("nearpairs", &[3, 2, 1]), ("clattice", &[3, 2]), ("coplanar", &[3, 2])];
    for (fam, dims) in hostile {
        for &dim in dims {
            for periodic in [false, true] {
                if (fam == "clattice" || fam == "coplanar") && !periodic {
                    continue;
                }
                for n in [8usize, 27, 64] {
                    for k in 0..kmax {
                        v.push(gen_family_case_in("corpus", fam, 0, k, dim, periodic, n, BoxKind::Random));
                    }
                }
            }
        }
    }
    for fam in ["coplanar", "mildcluster"] {
        for dim in [3usize, 2] {
            for periodic in [false, true] {
                for n in [27usize, 100] {
                    for k in 0..kmax {
                        v.push(gen_family_case_in("corpus", fam, 0, k, dim, periodic, n, BoxKind::FarOffset));
                    }
                }
            }
        }
    }
    for fam in ["uniform", "lattice", "mildcluster", "coplanar"] {
        for dim in [3usize, 2, 1] {
            for periodic in [false, true] {
                for n in [8usize, 50] {
                    for k in 0..(kmax / 2).max(1) {
                        v.push(gen_family_case_in("corpus", fam, 0, k, dim, periodic, n, BoxKind::TinyScale));
                    }
                }
            }
        }
    }
    v.extend(special_cases());
    v.retain(|c| c.validity().is_ok());
    v
}

/// Hand-written degenerate inputs (witnesses of the findings of DESIGN section 7).
pub fn special_cases() -> Vec<Case> {
    let mut v = vec![];
    let mk = |name: &str, dim: usize, periodic: bool, anchor: DVec3, width: DVec3, pts: Vec<DVec3>| Case {
        family: "special".into(),
        dim,
        periodic,
        anchor,
        width,
        pts,
        mask: None,
        origin: format!("corpus/special/{name}"),
    };
    // upstream test_non_perturbed_z: 3x3 columns? (perturbed_plane with pert 0): generators on a regular grid in a flat box
    {
        let anchor = DVec3::ZERO;
        let width = DVec3::new(30., 4.6, 0.29);
        let count = 10;
        let mut pts = vec![];
        for i in 0..count {
            for j in 0..count {
                pts.push(anchor + width * DVec3::new((i as f64 + 0.5) / count as f64, (j as f64 + 0.5) / count as f64, 0.5));
            }
        }
        v.push(mk("flat_grid_10x10", 3, false, anchor, width, pts));
    }
    // 4x4 columns, z in {0, 1, 1/2, 1/4}: generators on two opposite walls (witness of F4)
    {
        let mut pts = vec![];
        for i in 0..4 {
            for j in 0..4 {
                pts.push(DVec3::new((i as f64 + 0.5) / 4., (j as f64 + 0.5) / 4., [0., 1., 0.5, 0.25][(i + j) % 4]));
            }
        }
        v.push(mk("columns_4x4_on_walls", 3, false, DVec3::ZERO, DVec3::ONE, pts));
    }
    // bcc k x k x k with offset 1/4 of the lattice constant, non-periodic cube
    for k in [2usize, 3] {
        let mut pts = vec![];
        let a = 1. / k as f64;
        for i in 0..k {
            for j in 0..k {
                for l in 0..k {
                    let o = DVec3::new(i as f64, j as f64, l as f64) * a;
                    pts.push(o + DVec3::splat(0.25 * a));
                    pts.push(o + DVec3::splat(0.75 * a));
                }
            }
        }
        v.push(mk(&format!("bcc_{k}"), 3, false, DVec3::ZERO, DVec3::ONE, pts.clone()));
        v.push(mk(&format!("bcc_{k}_periodic"), 3, true, DVec3::ZERO, DVec3::ONE, pts));
    }
    // fcc with generators on the walls
    {
        let k = 2usize;
        let a = 1. / k as f64;
        let mut pts = vec![];
        for i in 0..=k {
            for j in 0..=k {
                for l in 0..=k {
                    let o = DVec3::new(i as f64, j as f64, l as f64) * a;
                    pts.push(o);
                    for d in [DVec3::new(0.5, 0.5, 0.), DVec3::new(0.5, 0., 0.5), DVec3::new(0., 0.5, 0.5)] {
                        let q = o + d * a;
                        if q.max_element() <= 1. {
                            pts.push(q);
                        }
                    }
                }
            }
        }
        v.push(mk("fcc_2_on_walls", 3, false, DVec3::ZERO, DVec3::ONE, pts));
    }
    // three generators of the F3 witness and a single generator on a corner
    v.push(mk("three_generators", 3, false, DVec3::ZERO, DVec3::ONE, vec![DVec3::new(0.25, 0.5, 0.5), DVec3::new(0.75, 0.5, 0.5), DVec3::new(0.5, 0.9, 0.5)]));
    v.push(mk("single_on_corner", 3, false, DVec3::ZERO, DVec3::ONE, vec![DVec3::ZERO]));
    v.push(mk("single_on_corner_periodic", 3, true, DVec3::ZERO, DVec3::ONE, vec![DVec3::ZERO]));
    v.push(mk("two_on_opposite_corners", 3, false, DVec3::ZERO, DVec3::ONE, vec![DVec3::ZERO, DVec3::ONE]));
    v.push(mk("sparse_periodic_1x2x2", 3, true, DVec3::ZERO, DVec3::new(1., 2., 2.), vec![DVec3::new(0.5, 0.5, 0.5), DVec3::new(0.5, 1.5, 0.5), DVec3::new(0.5, 0.5, 1.5), DVec3::new(0.5, 1.5, 1.5), DVec3::new(0.25, 1., 1.), DVec3::new(0.75, 1., 1.)]));
    for c in v.iter_mut() {
        c.dedup();
    }
    v
}

/// Masks of section 4.1
pub fn gen_mask(n: usize, r: &mut Rng) -> Vec<bool> {
    match r.below(7) {
        0 => vec![true; n],
        1 => vec![false; n],
        2 => {
            let mut m = vec![false; n];
            m[r.below(n)] = true;
            m
        }
        3 => (0..n).map(|_| r.bool()).collect(),
        4 => (0..n).map(|_| r.chance(0.05)).collect(),
        5 => {
            let mut m = vec![true; n];
            m[r.below(n)] = false;
            m
        }
        _ => {
            let h = r.below(n + 1);
            let lower = r.bool();
            (0..n).map(|i| (i < h) == lower).collect()
        }
    }
}
