//! Fixed-width sign-magnitude integers (8 x 64-bit limbs = 512 bits) with add / sub / mul only.
//!
//! Written for the integer in-sphere oracle; shares nothing with the big-integer back ends of the
//! library. The lifted 4x4 determinant of 53-bit differences / 108-bit squared norms needs < 300 bits.

const N: usize = 8;

#[derive(Clone, Copy, Debug, PartialEq, Eq)]
pub struct Wide {
    neg: bool,
    mag: [u64; N],
}

fn mag_cmp(a: &[u64; N], b: &[u64; N]) -> std::cmp::Ordering {
    for i in (0..N).rev() {
        if a[i] != b[i] {
            return a[i].cmp(&b[i]);
        }
    }
    std::cmp::Ordering::Equal
}

fn mag_add(a: &[u64; N], b: &[u64; N]) -> [u64; N] {
    let mut r = [0u64; N];
    let mut carry = 0u128;
    for i in 0..N {
        let s = a[i] as u128 + b[i] as u128 + carry;
        r[i] = s as u64;
        carry = s >> 64;
    }
    assert!(carry == 0, "Wide overflow in add");
    r
}

/// a - b, requires a >= b
fn mag_sub(a: &[u64; N], b: &[u64; N]) -> [u64; N] {
    let mut r = [0u64; N];
    let mut borrow = 0i128;
    for i in 0..N {
        let mut s = a[i] as i128 - b[i] as i128 - borrow;
        if s < 0 {
            s += 1i128 << 64;
            borrow = 1;
        } else {
            borrow = 0;
        }
        r[i] = s as u64;
    }
    assert!(borrow == 0, "Wide underflow in sub");
    r
}

impl Wide {
    pub const ZERO: Wide = Wide {
        neg: false,
        mag: [0; N],
    };

    pub fn from_i128(x: i128) -> Self {
        let neg = x < 0;
        let m = x.unsigned_abs();
        let mut mag = [0u64; N];
        mag[0] = m as u64;
        mag[1] = (m >> 64) as u64;
        Wide { neg, mag }
    }

    pub fn from_i64(x: i64) -> Self {
        Self::from_i128(x as i128)
    }

    pub fn is_zero(&self) -> bool {
        self.mag.iter().all(|&l| l == 0)
    }

    pub fn signum(&self) -> i32 {
        if self.is_zero() {
            0
        } else if self.neg {
            -1
        } else {
            1
        }
    }

    pub fn neg(mut self) -> Self {
        if !self.is_zero() {
            self.neg = !self.neg;
        }
        self
    }

    pub fn add(self, o: Self) -> Self {
        if self.neg == o.neg {
            Wide {
                neg: self.neg,
                mag: mag_add(&self.mag, &o.mag),
            }
        } else {
            match mag_cmp(&self.mag, &o.mag) {
                std::cmp::Ordering::Equal => Wide::ZERO,
                std::cmp::Ordering::Greater => Wide {
                    neg: self.neg,
                    mag: mag_sub(&self.mag, &o.mag),
                },
                std::cmp::Ordering::Less => Wide {
                    neg: o.neg,
                    mag: mag_sub(&o.mag, &self.mag),
                },
            }
        }
    }

    pub fn sub(self, o: Self) -> Self {
        self.add(o.neg())
    }

    pub fn mul(self, o: Self) -> Self {
        let mut r = [0u64; N];
        for i in 0..N {
            if self.mag[i] == 0 {
                continue;
            }
            let mut carry = 0u128;
            for j in 0..N {
                if i + j >= N {
                    assert!(o.mag[j] == 0 || self.mag[i] == 0, "Wide overflow in mul");
                    continue;
                }
                let t = self.mag[i] as u128 * o.mag[j] as u128 + r[i + j] as u128 + carry;
                r[i + j] = t as u64;
                carry = t >> 64;
            }
            assert!(carry == 0, "Wide overflow in mul (carry)");
        }
        let z = r.iter().all(|&l| l == 0);
        Wide {
            neg: !z && (self.neg != o.neg),
            mag: r,
        }
    }

    /// number of significant bits of the magnitude
    pub fn bits(&self) -> u32 {
        for i in (0..N).rev() {
            if self.mag[i] != 0 {
                return 64 * i as u32 + (64 - self.mag[i].leading_zeros());
            }
        }
        0
    }

    pub fn to_f64(&self) -> f64 {
        let mut r = 0.0f64;
        for i in (0..N).rev() {
            r = r * 18446744073709551616.0 + self.mag[i] as f64;
        }
        if self.neg {
            -r
        } else {
            r
        }
    }
}

fn det3(m: [[Wide; 3]; 3]) -> Wide {
    let c0 = m[1][1].mul(m[2][2]).sub(m[1][2].mul(m[2][1]));
    let c1 = m[1][0].mul(m[2][2]).sub(m[1][2].mul(m[2][0]));
    let c2 = m[1][0].mul(m[2][1]).sub(m[1][1].mul(m[2][0]));
    m[0][0].mul(c0).sub(m[0][1].mul(c1)).add(m[0][2].mul(c2))
}

/// Rows (x - a) lifted with the squared norm, for x in {b, c, d, v}.
fn lifted(a: &[i64; 3], x: &[i64; 3]) -> [Wide; 4] {
    let d = [
        x[0] as i128 - a[0] as i128,
        x[1] as i128 - a[1] as i128,
        x[2] as i128 - a[2] as i128,
    ];
    let n2 = Wide::from_i128(d[0])
        .mul(Wide::from_i128(d[0]))
        .add(Wide::from_i128(d[1]).mul(Wide::from_i128(d[1])))
        .add(Wide::from_i128(d[2]).mul(Wide::from_i128(d[2])));
    [Wide::from_i128(d[0]), Wide::from_i128(d[1]), Wide::from_i128(d[2]), n2]
}

/// The sign convention of the library's exact predicate: sign of the determinant of the 4x4 matrix whose
/// COLUMNS are the lifted differences b-a, c-a, d-a, v-a (equivalently rows; det is transpose invariant).
/// Expanded along the FIRST row of the row-matrix [b; c; d; v] (the library expands along its last column).
pub fn in_sphere_det(a: &[i64; 3], b: &[i64; 3], c: &[i64; 3], d: &[i64; 3], v: &[i64; 3]) -> Wide {
    let r = [lifted(a, b), lifted(a, c), lifted(a, d), lifted(a, v)];
    // det of 4x4 matrix with rows r[0..4], Laplace expansion along row 0
    let mut det = Wide::ZERO;
    for col in 0..4 {
        let mut minor = [[Wide::ZERO; 3]; 3];
        for (mi, row) in (1..4).enumerate() {
            let mut mj = 0;
            for cc in 0..4 {
                if cc == col {
                    continue;
                }
                minor[mi][mj] = r[row][cc];
                mj += 1;
            }
        }
        let term = r[0][col].mul(det3(minor));
        if col % 2 == 0 {
            det = det.add(term);
        } else {
            det = det.sub(term);
        }
    }
    det
}

pub fn in_sphere_sign(a: &[i64; 3], b: &[i64; 3], c: &[i64; 3], d: &[i64; 3], v: &[i64; 3]) -> i32 {
    in_sphere_det(a, b, c, d, v).signum()
}

/// sign of det[b-a, c-a, d-a] (rows)
pub fn orient_sign(a: &[i64; 3], b: &[i64; 3], c: &[i64; 3], d: &[i64; 3]) -> i32 {
    let row = |x: &[i64; 3]| {
        [
            Wide::from_i128(x[0] as i128 - a[0] as i128),
            Wide::from_i128(x[1] as i128 - a[1] as i128),
            Wide::from_i128(x[2] as i128 - a[2] as i128),
        ]
    };
    det3([row(b), row(c), row(d)]).signum()
}

/// Independent geometric meaning, in exact arithmetic without the lifted determinant:
/// returns (orientation sign, sign(|v-o|^2 - r^2)) where o, r is the circumsphere of a, b, c, d.
/// Uses Cramer's rule on 2 (x-a).o' = |x-a|^2 for x in {b,c,d}:  o' = N / (2 D), D = det[b-a;c-a;d-a].
/// |v'-o'|^2 - |o'|^2 = |v'|^2 - 2 v'.o' = |v'|^2 - v'.N / D ; multiply by D^2 (positive) -> sign(|v'|^2 D^2 - (v'.N) D)
pub fn in_sphere_geometric(a: &[i64; 3], b: &[i64; 3], c: &[i64; 3], d: &[i64; 3], v: &[i64; 3]) -> (i32, i32) {
    let lb = lifted(a, b);
    let lc = lifted(a, c);
    let ld = lifted(a, d);
    let lv = lifted(a, v);
    let m = [[lb[0], lb[1], lb[2]], [lc[0], lc[1], lc[2]], [ld[0], ld[1], ld[2]]];
    let dd = det3(m);
    if dd.is_zero() {
        return (0, 0);
    }
    // N_k = det of m with column k replaced by the squared norms
    let rhs = [lb[3], lc[3], ld[3]];
    let mut nvec = [Wide::ZERO; 3];
    for k in 0..3 {
        let mut mk = m;
        for r in 0..3 {
            mk[r][k] = rhs[r];
        }
        nvec[k] = det3(mk);
    }
    let vdotn = lv[0].mul(nvec[0]).add(lv[1].mul(nvec[1])).add(lv[2].mul(nvec[2]));
    let val = lv[3].mul(dd).mul(dd).sub(vdotn.mul(dd));
    (dd.signum(), val.signum())
}

#[cfg(test)]
mod tests {
    use super::*;
    #[test]
    fn basic() {
        let a = Wide::from_i128(-123456789012345678901234567890i128);
        let b = Wide::from_i128(987654321098765432109876543210i128);
        assert_eq!(a.add(b), Wide::from_i128(987654321098765432109876543210i128 - 123456789012345678901234567890i128));
        assert_eq!(Wide::from_i64(-3).mul(Wide::from_i64(7)), Wide::from_i64(-21));
        assert_eq!(a.sub(a), Wide::ZERO);
        let p = Wide::from_i128(1i128 << 100).mul(Wide::from_i128(1i128 << 100));
        assert_eq!(p.bits(), 201);
    }
    #[test]
    fn unit_tet() {
        // a=(0,0,0) b=(1,0,0) c=(0,1,0) d=(0,0,1): orientation +; centre (.5,.5,.5) r^2 = .75
        let (a, b, c, d) = ([0, 0, 0], [1, 0, 0], [0, 1, 0], [0, 0, 1]);
        assert_eq!(orient_sign(&a, &b, &c, &d), 1);
        // (1,1,1) is on the sphere, (1,1,0) on, (2,2,2) outside, centre-ish (1,1,1)/.. inside needs int: none
        assert_eq!(in_sphere_sign(&a, &b, &c, &d, &[1, 1, 1]), 0);
        assert_eq!(in_sphere_geometric(&a, &b, &c, &d, &[1, 1, 1]), (1, 0));
        let s_out = in_sphere_sign(&a, &b, &c, &d, &[2, 2, 2]);
        assert_eq!(in_sphere_geometric(&a, &b, &c, &d, &[2, 2, 2]), (1, 1));
        // for positive orientation: negative = inside (library doc), so outside must be positive
        assert_eq!(s_out, 1);
        let (a2, b2, c2, d2) = ([0, 0, 0], [4, 0, 0], [0, 4, 0], [0, 0, 4]);
        assert_eq!(in_sphere_sign(&a2, &b2, &c2, &d2, &[1, 1, 1]), -1);
        assert_eq!(in_sphere_geometric(&a2, &b2, &c2, &d2, &[1, 1, 1]), (1, -1));
    }
}
