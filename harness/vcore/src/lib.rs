//! Shared, library-independent parts of the verification harness.
pub mod alloc;
pub mod case;
pub mod digest;
pub mod refcell;
pub mod report;
pub mod rng;
pub mod wide;
pub use glam;
pub use serde_json;
