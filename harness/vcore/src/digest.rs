//! Canonical FNV-1a digest over bit patterns.

#[derive(Clone, Copy, Debug, PartialEq, Eq, Hash)]
pub struct Digest(pub u64);

impl Default for Digest {
    fn default() -> Self {
        Digest(0xcbf29ce484222325)
    }
}

impl Digest {
    pub fn new() -> Self {
        Self::default()
    }
    #[inline]
    pub fn byte(&mut self, b: u8) {
        self.0 = (self.0 ^ b as u64).wrapping_mul(0x100000001b3);
    }
    #[inline]
    pub fn u64(&mut self, x: u64) {
        for b in x.to_le_bytes() {
            self.byte(b);
        }
    }
    #[inline]
    pub fn usize(&mut self, x: usize) {
        self.u64(x as u64);
    }
    #[inline]
    pub fn f64(&mut self, x: f64) {
        self.u64(x.to_bits());
    }
    pub fn v3(&mut self, v: glam::DVec3) {
        self.f64(v.x);
        self.f64(v.y);
        self.f64(v.z);
    }
    pub fn opt_v3(&mut self, v: Option<glam::DVec3>) {
        match v {
            None => self.byte(0),
            Some(v) => {
                self.byte(1);
                self.v3(v)
            }
        }
    }
    pub fn opt_usize(&mut self, v: Option<usize>) {
        match v {
            None => self.byte(0),
            Some(v) => {
                self.byte(1);
                self.usize(v)
            }
        }
    }
    pub fn str(&mut self, s: &str) {
        for b in s.bytes() {
            self.byte(b);
        }
        self.byte(0xff);
    }
    pub fn hex(&self) -> String {
        format!("{:016x}", self.0)
    }
}
