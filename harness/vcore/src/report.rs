//! Violations, replay files, evidence files, known findings.

use crate::case::Case;
use serde_json::{json, Map, Value};
use std::collections::{BTreeMap, HashSet};
use std::path::{Path, PathBuf};
use std::time::Instant;

#[derive(Clone, Debug)]
pub struct Violation {
    pub property: String,
    /// name of the monitor / clause that fired, e.g. "c01.volume"
    pub monitor: String,
    /// stable signature used for matching known findings (no numbers that vary from run to run)
    pub signature: String,
    pub what: String,
    pub case: Option<Case>,
    pub detail: Value,
}

impl Violation {
    pub fn new(property: &str, monitor: &str, what: String, case: Option<&Case>, detail: Value) -> Self {
        Violation {
            property: property.to_string(),
            monitor: monitor.to_string(),
            signature: monitor.to_string(),
            what,
            case: case.cloned(),
            detail,
        }
    }
    pub fn with_signature(mut self, s: &str) -> Self {
        self.signature = s.to_string();
        self
    }
}


/// The violations of a report. A monitor that goes wrong on a broken tree can raise one violation per cell of a
/// 60 000-generator input, each carrying a copy of that input. The list is bounded by the MEMORY it holds, not by a count
/// (a count would let many known findings on small inputs crowd out a new violation): records are kept while the inputs
/// they carry sum to at most `CAP_POINTS` generators; beyond that only the first record of every new signature is kept and
/// the rest are counted.
#[derive(Default, Clone, Debug)]
pub struct VList {
    pub items: Vec<Violation>,
    pub dropped: u64,
    points_held: usize,
}

impl VList {
    pub const CAP_POINTS: usize = 3_000_000;
    pub fn push(&mut self, v: Violation) {
        let n = v.case.as_ref().map_or(1, |c| c.pts.len().max(1));
        if self.points_held + n <= Self::CAP_POINTS || !self.items.iter().any(|x| x.signature == v.signature) {
            self.points_held += n;
            self.items.push(v);
        } else {
            self.dropped += 1;
        }
    }
}

impl std::ops::Deref for VList {
    type Target = [Violation];
    fn deref(&self) -> &[Violation] {
        &self.items
    }
}

impl<'a> IntoIterator for &'a VList {
    type Item = &'a Violation;
    type IntoIter = std::slice::Iter<'a, Violation>;
    fn into_iter(self) -> Self::IntoIter {
        self.items.iter()
    }
}

#[derive(Clone, Debug)]
pub struct KnownFinding {
    pub property: String,
    pub signature: String,
    /// exact input hash (corpus entry) - or None for a class-level entry
    pub case_hash: Option<u64>,
    /// family for class-level entries
    pub family: Option<String>,
    /// class-level entries only apply to inputs whose provenance starts with this prefix (the seeded hostile exploration);
    /// inputs of the fixed corpus are always judged against their own per-input entries
    pub origin_prefix: Option<String>,
    pub what: String,
}

#[derive(Default, Clone, Debug)]
pub struct KnownFindings {
    pub known: Vec<KnownFinding>,
}

impl KnownFindings {
    pub fn load(path: &Path) -> Self {
        let mut k = KnownFindings::default();
        let Ok(txt) = std::fs::read_to_string(path) else {
            return k;
        };
        let v: Value = serde_json::from_str(&txt).expect("known_findings.json must be valid JSON");
        if let Some(a) = v["known"].as_array() {
            for e in a {
                k.known.push(KnownFinding {
                    property: e["property"].as_str().unwrap_or("").to_string(),
                    signature: e["signature"].as_str().unwrap_or("").to_string(),
                    case_hash: e["case_hash"].as_str().map(|s| u64::from_str_radix(s, 16).unwrap()),
                    family: e["family"].as_str().map(|s| s.to_string()),
                    origin_prefix: e["origin_prefix"].as_str().map(|s| s.to_string()),
                    what: e["what"].as_str().unwrap_or("").to_string(),
                });
            }
        }
        k
    }

    /// A violation is a known finding iff an entry lists the same property and signature and either the exact
    /// input (hash) or - for class-level entries - the family of the input.
    pub fn matches(&self, v: &Violation) -> Option<&KnownFinding> {
        self.known.iter().find(|k| {
            k.property == v.property
                && k.signature == v.signature
                && match (&k.case_hash, &k.family, &v.case) {
                    (Some(h), _, Some(c)) => *h == c.hash(),
                    (None, Some(f), Some(c)) => *f == c.family && k.origin_prefix.as_deref().map_or(true, |p| c.origin.starts_with(p)),
                    (None, None, _) => true,
                    _ => false,
                }
        })
    }
}

pub struct Report {
    pub property: String,
    pub tier: String,
    pub seed: u64,
    pub start: Instant,
    pub evaluations: u64,
    pub nontrivial: HashSet<u64>,
    pub samples: Vec<Value>,
    pub counters: BTreeMap<String, u64>,
    pub maxima: BTreeMap<String, f64>,
    pub maxima_at: BTreeMap<String, String>,
    pub violations: VList,
    pub known_hits: Vec<(String, Violation)>,
    pub inconclusive: u64,
    pub inconclusive_notes: Vec<String>,
    pub assumptions: Vec<String>,
    pub rule: String,
    pub extra: Map<String, Value>,
    pub exhaustive: Option<bool>,
    pub max_samples: usize,
}

impl Report {
    pub fn new(property: &str, tier: &str, seed: u64) -> Self {
        Report {
            property: property.to_string(),
            tier: tier.to_string(),
            seed,
            start: Instant::now(),
            evaluations: 0,
            nontrivial: HashSet::new(),
            samples: vec![],
            counters: BTreeMap::new(),
            maxima: BTreeMap::new(),
            maxima_at: BTreeMap::new(),
            violations: VList::default(),
            known_hits: vec![],
            inconclusive: 0,
            inconclusive_notes: vec![],
            assumptions: vec![],
            rule: String::new(),
            extra: Map::new(),
            exhaustive: None,
            max_samples: 5,
        }
    }

    pub fn count(&mut self, key: &str, n: u64) {
        *self.counters.entry(key.to_string()).or_insert(0) += n;
    }
    pub fn max(&mut self, key: &str, x: f64) {
        let e = self.maxima.entry(key.to_string()).or_insert(f64::NEG_INFINITY);
        if x > *e {
            *e = x;
        }
    }
    /// like `max`, additionally remembering where the maximum was seen
    pub fn max_at(&mut self, key: &str, x: f64, note: impl FnOnce() -> String) {
        let e = self.maxima.entry(key.to_string()).or_insert(f64::NEG_INFINITY);
        if x > *e {
            *e = x;
            self.maxima_at.insert(key.to_string(), note());
        }
    }
    pub fn sample(&mut self, v: Value) {
        if self.samples.len() < self.max_samples {
            self.samples.push(v);
        }
    }
    pub fn inconclusive(&mut self, note: String) {
        self.inconclusive += 1;
        if self.inconclusive_notes.len() < 10 {
            self.inconclusive_notes.push(note);
        }
    }

    pub fn merge(&mut self, o: Report) {
        self.evaluations += o.evaluations;
        self.nontrivial.extend(o.nontrivial);
        for s in o.samples {
            self.sample(s);
        }
        for (k, v) in o.counters {
            self.count(&k, v);
        }
        for (k, v) in o.maxima {
            let cur = self.maxima.get(&k).copied().unwrap_or(f64::NEG_INFINITY);
            if v > cur {
                if let Some(n) = o.maxima_at.get(&k) {
                    self.maxima_at.insert(k.clone(), n.clone());
                }
            }
            self.max(&k, v);
        }
        self.violations.dropped += o.violations.dropped;
        for v in o.violations.items {
            self.violations.push(v);
        }
        self.inconclusive += o.inconclusive;
        for n in o.inconclusive_notes {
            if self.inconclusive_notes.len() < 10 {
                self.inconclusive_notes.push(n);
            }
        }
    }

    /// Classify violations against the known findings, write replay files, print the verdict lines, write the
    /// evidence file. Returns the process exit code.
    pub fn finish(self, verif_dir: &Path, known: &KnownFindings) -> i32 {
        self.finish_inner(verif_dir, known, None)
    }

    /// Auxiliary leg (sanitizer build, other back end, ...): same verdict lines, but the summary goes to
    /// evidence/legs/<ID>.<leg>.json, which the main leg embeds into the evidence file.
    pub fn finish_leg(self, verif_dir: &Path, known: &KnownFindings, leg: &str) -> i32 {
        self.finish_inner(verif_dir, known, Some(leg))
    }

    fn finish_inner(mut self, verif_dir: &Path, known: &KnownFindings, leg: Option<&str>) -> i32 {
        let replay_dir = verif_dir.join("replay");
        let _ = std::fs::create_dir_all(&replay_dir);
        let mut new_violations = vec![];
        let dropped = self.violations.dropped;
        if dropped > 0 {
            println!("  note: {dropped} further violation records were dropped in memory (the inputs carried by the kept ones already sum to {} generators)", VList::CAP_POINTS);
        }
        let vs = std::mem::take(&mut self.violations).items;
        for v in vs {
            if let Some(k) = known.matches(&v) {
                self.known_hits.push((k.what.clone(), v));
            } else {
                new_violations.push(v);
            }
        }
        // known findings: one line each (deduplicated by text)
        let mut seen = HashSet::new();
        for (what, v) in &self.known_hits {
            let line = format!("KNOWN-FINDING: property={} {}", v.property, what);
            if seen.insert(line.clone()) {
                println!("{line}");
            }
        }
        let mut written = 0;
        let mut sigs: BTreeMap<String, u64> = BTreeMap::new();
        for v in &new_violations {
            *sigs.entry(v.signature.clone()).or_insert(0) += 1;
            if written >= 25 {
                continue;
            }
            let mut d = crate::digest::Digest::new();
            d.str(&v.monitor);
            d.str(&v.what);
            if let Some(c) = &v.case {
                d.u64(c.hash());
            }
            let path: PathBuf = replay_dir.join(format!("{}-{}.json", v.property, d.hex()));
            let body = json!({
                "property": v.property,
                "monitor": v.monitor,
                "signature": v.signature,
                "what": v.what,
                "tier": self.tier,
                "seed": self.seed,
                "case": v.case.as_ref().map(|c| c.to_json()),
                "detail": v.detail,
            });
            let _ = std::fs::write(&path, serde_json::to_string_pretty(&body).unwrap());
            println!("VIOLATION property={} replay={}", v.property, path.display());
            println!("  [{}] {}", v.monitor, v.what);
            written += 1;
        }
        if new_violations.len() > written {
            println!(
                "  ... {} further violations not written (same run); by signature: {:?}",
                new_violations.len() - written,
                sigs
            );
        }
        if self.inconclusive > 0 {
            println!(
                "INCONCLUSIVE property={} cases={} e.g. {:?}",
                self.property,
                self.inconclusive,
                self.inconclusive_notes.first()
            );
        }
        let nviol = new_violations.len();
        let wall = self.start.elapsed().as_secs_f64();
        // a Miri shard of the quick tier interprets a single tiny input (about 20 s); every other run must have seen at
        // least two distinct non-trivial cases
        let min_cases = if leg.map_or(false, |l| l.starts_with("miri")) { 1 } else { 2 };
        let broken = self.nontrivial.len() < min_cases || self.evaluations == 0;
        let mut coverage = Map::new();
        coverage.insert("evaluations".into(), json!(self.evaluations));
        coverage.insert("distinct_nontrivial".into(), json!(self.nontrivial.len()));
        coverage.insert("rule".into(), json!(self.rule));
        coverage.insert("samples".into(), json!(self.samples));
        coverage.insert("counters".into(), json!(self.counters));
        coverage.insert(
            "maxima".into(),
            json!(self.maxima.iter().map(|(k, v)| (k.clone(), json!(v))).collect::<Map<String, Value>>()),
        );
        coverage.insert("maxima_at".into(), json!(self.maxima_at));
        coverage.insert("inconclusive".into(), json!(self.inconclusive));
        coverage.insert("inconclusive_notes".into(), json!(self.inconclusive_notes));
        coverage.insert("known_findings_hit".into(), json!(self.known_hits.len()));
        if let Some(e) = self.exhaustive {
            coverage.insert("exhaustive".into(), json!(e));
        }
        for (k, v) in self.extra.iter() {
            coverage.insert(k.clone(), v.clone());
        }
        let evdir = verif_dir.join("evidence");
        let legdir = evdir.join("legs");
        let _ = std::fs::create_dir_all(&legdir);
        if let Some(leg) = leg {
            let body = json!({"leg": leg, "property_id": self.property, "tier": self.tier, "seed": self.seed,
                "coverage": coverage, "wall_s": wall, "violations": nviol});
            std::fs::write(legdir.join(format!("{}.{}.json", self.property, leg)), serde_json::to_string_pretty(&body).unwrap())
                .expect("cannot write leg file");
            println!("LEG property={} leg={} evaluations={} distinct_nontrivial={} violations={} wall_s={:.1}",
                self.property, leg, self.evaluations, self.nontrivial.len(), nviol, wall);
            for (k, v) in &self.counters {
                println!("  counter {k} = {v}");
            }
            for (k, v) in &self.maxima {
                println!("  max {k} = {v:e}");
            }
            return if nviol > 0 { 1 } else if broken { println!("BROKEN: leg {leg} observed fewer than 2 distinct non-trivial cases"); 2 } else { 0 };
        }
        // embed the legs that the driver ran before the main leg
        let mut legs = Map::new();
        if let Ok(rd) = std::fs::read_dir(&legdir) {
            for e in rd.flatten() {
                let name = e.file_name().to_string_lossy().to_string();
                if let Some(rest) = name.strip_prefix(&format!("{}.", self.property)) {
                    if let Ok(txt) = std::fs::read_to_string(e.path()) {
                        if let Ok(v) = serde_json::from_str::<Value>(&txt) {
                            legs.insert(rest.trim_end_matches(".json").to_string(), v);
                        }
                    }
                }
            }
        }
        if !legs.is_empty() {
            coverage.insert("legs".into(), Value::Object(legs));
        }
        let ev = json!({
            "property_id": self.property,
            "tier": self.tier,
            "seed": self.seed,
            "level": "exploration",
            "coverage": coverage,
            "assumptions": self.assumptions,
            "wall_s": wall,
            "violations": nviol,
        });
        std::fs::write(
            evdir.join(format!("{}.json", self.property)),
            serde_json::to_string_pretty(&ev).unwrap(),
        )
        .expect("cannot write evidence file");
        println!(
            "SUMMARY property={} tier={} seed={} evaluations={} distinct_nontrivial={} violations={} known={} inconclusive={} wall_s={:.1}",
            self.property,
            self.tier,
            self.seed,
            self.evaluations,
            self.nontrivial.len(),
            nviol,
            self.known_hits.len(),
            self.inconclusive,
            wall
        );
        for (k, v) in &self.counters {
            println!("  counter {k} = {v}");
        }
        for (k, v) in &self.maxima {
            println!("  max {k} = {v:e}   {}", self.maxima_at.get(k).map(|s| s.as_str()).unwrap_or(""));
        }
        if nviol > 0 {
            1
        } else if broken {
            println!("BROKEN: the run observed fewer than 2 distinct non-trivial cases");
            2
        } else {
            0
        }
    }
}
