//! Independent executable model of a Voronoi cell: brute-force intersection of the box with the
//! bisector half-space of every other site (all periodic images included), by Sutherland-Hodgman
//! clipping of explicit face polygons. No security radius, no dual representation, no exact predicates.

use crate::case::Case;
use glam::DVec3;
use std::collections::BTreeMap;

#[derive(Clone, Copy, Debug, PartialEq, Eq, PartialOrd, Ord, Hash)]
pub enum Key {
    /// wall index 0..6 = -x, +x, -y, +y, -z, +z
    Wall(u8),
    /// neighbouring generator and integer lattice shift of the image (in units of the width)
    Gen(usize, [i8; 3]),
}

#[derive(Clone, Debug)]
pub struct RFace {
    pub key: Key,
    pub n_out: DVec3,
    pub poly: Vec<DVec3>,
}

#[derive(Clone, Debug)]
pub struct RCell {
    pub g: DVec3,
    pub faces: Vec<RFace>,
}

#[derive(Clone, Debug, Default)]
pub struct RFaceSum {
    pub area: f64,
    /// area * centroid
    pub moment: DVec3,
    pub n_out: DVec3,
    pub nverts: usize,
}

#[derive(Clone, Debug, Default)]
pub struct RSummary {
    pub volume: f64,
    /// integral of x over the cell
    pub moment: DVec3,
    /// integrals of xx, yy, zz, xy, xz, yz over the cell
    pub moment2: [f64; 6],
    pub faces: BTreeMap<Key, RFaceSum>,
    /// largest distance generator -> vertex
    pub rmax: f64,
    pub verts: Vec<DVec3>,
    pub surface: f64,
    pub clips: usize,
}

impl RCell {
    pub fn new_box(g: DVec3, lo: DVec3, hi: DVec3) -> Self {
        let c = |x: bool, y: bool, z: bool| {
            DVec3::new(
                if x { hi.x } else { lo.x },
                if y { hi.y } else { lo.y },
                if z { hi.z } else { lo.z },
            )
        };
        // outward normals; polygons counter-clockwise seen from outside
        let faces = vec![
            RFace {
                key: Key::Wall(0),
                n_out: DVec3::NEG_X,
                poly: vec![c(false, false, false), c(false, false, true), c(false, true, true), c(false, true, false)],
            },
            RFace {
                key: Key::Wall(1),
                n_out: DVec3::X,
                poly: vec![c(true, false, false), c(true, true, false), c(true, true, true), c(true, false, true)],
            },
            RFace {
                key: Key::Wall(2),
                n_out: DVec3::NEG_Y,
                poly: vec![c(false, false, false), c(true, false, false), c(true, false, true), c(false, false, true)],
            },
            RFace {
                key: Key::Wall(3),
                n_out: DVec3::Y,
                poly: vec![c(false, true, false), c(false, true, true), c(true, true, true), c(true, true, false)],
            },
            RFace {
                key: Key::Wall(4),
                n_out: DVec3::NEG_Z,
                poly: vec![c(false, false, false), c(false, true, false), c(true, true, false), c(true, false, false)],
            },
            RFace {
                key: Key::Wall(5),
                n_out: DVec3::Z,
                poly: vec![c(false, false, true), c(true, false, true), c(true, true, true), c(false, true, true)],
            },
        ];
        RCell { g, faces }
    }

    /// Keep the side of the bisector of (g, h) that contains g. Returns true if something was cut.
    pub fn clip_bisector(&mut self, h: DVec3, key: Key, eps: f64) -> bool {
        let dx = h - self.g;
        let dist = dx.length();
        let n = dx / dist; // outward normal of the new face
        let m = 0.5 * (self.g + h);
        self.clip_plane(n, m, key, eps)
    }

    /// Keep {x : n.(x - m) <= 0}.
    pub fn clip_plane(&mut self, n: DVec3, m: DVec3, key: Key, eps: f64) -> bool {
        let sd = |v: DVec3| n.dot(v - m);
        let mut any_out = false;
        'o: for f in &self.faces {
            for &v in &f.poly {
                if sd(v) > eps {
                    any_out = true;
                    break 'o;
                }
            }
        }
        if !any_out {
            return false;
        }
        let mut cap: Vec<DVec3> = vec![];
        let mut new_faces = Vec::with_capacity(self.faces.len() + 1);
        for f in &self.faces {
            let k = f.poly.len();
            let d: Vec<f64> = f
                .poly
                .iter()
                .map(|&v| {
                    let s = sd(v);
                    if s.abs() <= eps {
                        0.
                    } else {
                        s
                    }
                })
                .collect();
            let mut np = Vec::with_capacity(k + 2);
            for i in 0..k {
                let j = (i + 1) % k;
                let (vi, vj, di, dj) = (f.poly[i], f.poly[j], d[i], d[j]);
                if di <= 0. {
                    np.push(vi);
                    if di == 0. {
                        cap.push(vi);
                    }
                }
                if (di < 0. && dj > 0.) || (di > 0. && dj < 0.) {
                    let t = di / (di - dj);
                    let x = vi + t * (vj - vi);
                    np.push(x);
                    cap.push(x);
                }
            }
            if np.len() >= 3 {
                new_faces.push(RFace {
                    key: f.key,
                    n_out: f.n_out,
                    poly: np,
                });
            }
        }
        if cap.len() >= 3 {
            let c = cap.iter().copied().sum::<DVec3>() / cap.len() as f64;
            // in-plane frame taken from the data: u towards the cap point farthest from the centroid, w = n x u; both
            // coordinates are divided by their own extent before the angle is taken (a positive scaling of the two axes
            // preserves the cyclic order of a convex polygon). With an arbitrary orthonormal frame and raw coordinates the
            // cap of a 1D/2D cell in a box of 1e-30 (in-plane extent 1e-30 along one direction, 1 along the unit-thickness
            // axis) has angles that differ from +-pi/2 by 1e-30: the order was lost and the polygon came out as a bow tie
            // (found by the Qhull cross-check: reference 40 % off, implementation and Qhull equal to 1e-13).
            let far = cap.iter().copied().fold((0.0f64, DVec3::ZERO), |m, p| if (p - c).length_squared() > m.0 { ((p - c).length_squared(), p - c) } else { m }).1;
            let mut u = far - n * far.dot(n);
            if !(u.length() > 0.) {
                u = n.any_orthonormal_vector();
            }
            let u = u.normalize();
            let w = n.cross(u);
            let eu = cap.iter().map(|&p| (p - c).dot(u).abs()).fold(0.0f64, f64::max).max(f64::MIN_POSITIVE);
            let ew = cap.iter().map(|&p| (p - c).dot(w).abs()).fold(0.0f64, f64::max).max(f64::MIN_POSITIVE);
            let mut pts: Vec<(f64, DVec3)> = cap
                .iter()
                .map(|&p| {
                    let r = p - c;
                    ((r.dot(w) / ew).atan2(r.dot(u) / eu), p)
                })
                .collect();
            pts.sort_by(|a, b| a.0.partial_cmp(&b.0).unwrap());
            new_faces.push(RFace {
                key,
                n_out: n,
                poly: pts.into_iter().map(|x| x.1).collect(),
            });
        }
        self.faces = new_faces;
        true
    }

    pub fn rmax(&self) -> f64 {
        let mut r: f64 = 0.;
        for f in &self.faces {
            for &v in &f.poly {
                r = r.max(v.distance(self.g));
            }
        }
        r
    }

    pub fn summary(&self) -> RSummary {
        let mut s = RSummary::default();
        let g = self.g;
        for f in &self.faces {
            let p0 = f.poly[0];
            let mut a = 0.;
            let mut mc = DVec3::ZERO;
            for i in 1..f.poly.len() - 1 {
                let (p1, p2) = (f.poly[i], f.poly[i + 1]);
                let ai = 0.5 * (p1 - p0).cross(p2 - p0).dot(f.n_out);
                a += ai;
                mc += ai * (p0 + p1 + p2) / 3.;
                // tetrahedron (p0, p1, p2, g); signed volume positive for outward oriented faces
                let vol = (p0 - g).dot((p1 - g).cross(p2 - g)) / 6.;
                s.volume += vol;
                let sum = p0 + p1 + p2 + g;
                s.moment += vol * sum / 4.;
                let vs = [p0, p1, p2, g];
                let idx = [(0, 0), (1, 1), (2, 2), (0, 1), (0, 2), (1, 2)];
                for (q, &(ia, ib)) in idx.iter().enumerate() {
                    let mut sq = 0.;
                    for v in &vs {
                        sq += v[ia] * v[ib];
                    }
                    s.moment2[q] += vol / 20. * (sq + sum[ia] * sum[ib]);
                }
            }
            let e = s.faces.entry(f.key).or_insert(RFaceSum {
                n_out: f.n_out,
                ..Default::default()
            });
            e.area += a;
            e.moment += mc;
            e.nverts += f.poly.len();
            s.surface += a.abs();
            for &v in &f.poly {
                s.rmax = s.rmax.max(v.distance(g));
                s.verts.push(v);
            }
        }
        s
    }
}

/// A site of the (replicated) point set.
#[derive(Clone, Copy, Debug)]
pub struct Site {
    pub pos: DVec3,
    pub idx: usize,
    pub shift: [i8; 3],
}

pub struct RefSetup {
    pub pts: Vec<DVec3>,
    pub lo: DVec3,
    pub hi: DVec3,
    pub sites: Vec<Site>,
    pub eps: f64,
    pub anchor: DVec3,
    pub width: DVec3,
}

impl RefSetup {
    pub fn new(c: &Case) -> Self {
        let (a, w) = c.norm_box();
        let pts = c.proj_pts();
        let d = c.dim;
        let (mut lo, mut hi) = (a, a + w);
        if c.periodic {
            for k in 0..d {
                lo[k] -= w[k];
                hi[k] += w[k];
            }
        }
        let rng = |k: usize| if c.periodic && k < d { -1i8..=1 } else { 0i8..=0 };
        let mut sites = Vec::with_capacity(pts.len() * if c.periodic { 27 } else { 1 });
        for (j, &p) in pts.iter().enumerate() {
            for sx in rng(0) {
                for sy in rng(1) {
                    for sz in rng(2) {
                        sites.push(Site {
                            pos: p + DVec3::new(sx as f64 * w.x, sy as f64 * w.y, sz as f64 * w.z),
                            idx: j,
                            shift: [sx, sy, sz],
                        });
                    }
                }
            }
        }
        // magnitude of the coordinates the bisector planes act on: the ACTIVE axes only (in 1D/2D the unused axes span
        // [-0.5, 0.5] exactly and every bisector normal is orthogonal to them; counting them made the snapping tolerance
        // 4e-16 absolute, i.e. 4e-7 of a box of width 1e-9 - found by the Qhull cross-check at thorough seed 2)
        let mut mag = c.lmax();
        for k in 0..d {
            mag = mag.max(lo[k].abs()).max(hi[k].abs());
        }
        RefSetup {
            pts,
            lo,
            hi,
            sites,
            eps: 32. * f64::EPSILON * 0.5 * mag,
            anchor: a,
            width: w,
        }
    }

    /// Reference cell of generator i.
    pub fn cell(&self, i: usize) -> RCell {
        let g = self.pts[i];
        let mut rc = RCell::new_box(g, self.lo, self.hi);
        let mut order: Vec<(f64, usize)> = self
            .sites
            .iter()
            .enumerate()
            .filter(|(_, s)| !(s.idx == i && s.shift == [0, 0, 0]))
            .map(|(k, s)| (s.pos.distance_squared(g), k))
            .collect();
        order.sort_by(|x, y| x.0.partial_cmp(&y.0).unwrap());
        let big = order.len() > 4000;
        let mut rmax = rc.rmax();
        for (d2, k) in order {
            // sound skip for very large site lists only: a bisector at distance > rmax cannot cut anything
            if big && 0.5 * d2.sqrt() > rmax * (1. + 1e-9) + self.eps {
                continue;
            }
            let s = &self.sites[k];
            if rc.clip_bisector(s.pos, Key::Gen(s.idx, s.shift), self.eps) && big {
                rmax = rc.rmax();
            }
        }
        rc
    }

    pub fn summary(&self, i: usize) -> RSummary {
        self.cell(i).summary()
    }
}
