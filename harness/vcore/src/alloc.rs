//! Allocation budget: a global allocator that counts the live bytes allocated by each thread and refuses an allocation
//! (returns null, which makes Rust abort with "memory allocation of N bytes failed") once one thread holds more than the
//! budget. Before it refuses it writes the marker line `VERIF-ALLOC-BUDGET ...` to stderr, so that the driver can tell a
//! runaway allocation of the code under test (every case runs on one thread; the largest legitimate case needs a small
//! fraction of the budget) from the machine running out of memory. The bound is a logical one (bytes), not wall-clock.
//!
//! Bytes freed by another thread than the one that allocated them are subtracted from the freeing thread's count, which
//! can therefore go negative; counts are only compared with the upper bound.

use std::alloc::{GlobalAlloc, Layout, System};
use std::cell::Cell;
use std::sync::atomic::{AtomicIsize, AtomicUsize, Ordering};

pub struct Budget;

thread_local! {
    static LIVE: Cell<isize> = const { Cell::new(0) };
}

/// per-thread budget in bytes (set by `init`: 3/4 of the physical memory / number of workers, within [1, 8] GiB;
/// `VERIF_ALLOC_BUDGET_MB` overrides)
static LIMIT: AtomicIsize = AtomicIsize::new(8 << 30);
/// largest per-thread live count observed (reported in the evidence)
static PEAK: AtomicUsize = AtomicUsize::new(0);

pub fn init() {
    if let Some(mb) = std::env::var("VERIF_ALLOC_BUDGET_MB").ok().and_then(|s| s.parse::<isize>().ok()) {
        LIMIT.store(mb << 20, Ordering::Relaxed);
        return;
    }
    // A defect that lives in per-thread state (a thread-local cache, say) makes EVERY worker run away at the same time: the
    // budgets of all workers together must fit into the machine, or the kernel kills the process (no verdict) before one
    // thread reaches its budget. Budget = 3/4 of the physical memory divided by the number of workers, within [1, 8] GiB.
    let workers = std::env::var("VERIF_JOBS")
        .ok()
        .and_then(|s| s.parse::<usize>().ok())
        .unwrap_or_else(|| std::thread::available_parallelism().map(|n| n.get()).unwrap_or(4))
        .max(1);
    let total_kb = std::fs::read_to_string("/proc/meminfo")
        .ok()
        .and_then(|t| t.lines().find(|l| l.starts_with("MemTotal:")).and_then(|l| l.split_whitespace().nth(1).and_then(|x| x.parse::<u64>().ok())));
    if let Some(kb) = total_kb {
        let per = (kb as u128 * 1024 * 3 / 4 / workers as u128) as isize;
        LIMIT.store(per.clamp(1 << 30, 8 << 30), Ordering::Relaxed);
    }
}

pub fn peak_bytes() -> usize {
    PEAK.load(Ordering::Relaxed)
}

pub fn limit_bytes() -> usize {
    LIMIT.load(Ordering::Relaxed) as usize
}

#[inline]
fn add(n: isize) -> isize {
    LIVE.try_with(|c| {
        let v = c.get() + n;
        c.set(v);
        v
    })
    .unwrap_or(0)
}

unsafe impl GlobalAlloc for Budget {
    unsafe fn alloc(&self, layout: Layout) -> *mut u8 {
        let v = add(layout.size() as isize);
        if v > LIMIT.load(Ordering::Relaxed) {
            let msg = b"VERIF-ALLOC-BUDGET one thread exceeded its budget of live allocations (runaway allocation in the code under test)\n";
            libc_write(msg);
            add(-(layout.size() as isize));
            return std::ptr::null_mut();
        }
        if v > 0 && (v as usize) > PEAK.load(Ordering::Relaxed) {
            PEAK.fetch_max(v as usize, Ordering::Relaxed);
        }
        System.alloc(layout)
    }
    unsafe fn dealloc(&self, ptr: *mut u8, layout: Layout) {
        add(-(layout.size() as isize));
        System.dealloc(ptr, layout)
    }
    unsafe fn realloc(&self, ptr: *mut u8, layout: Layout, new_size: usize) -> *mut u8 {
        let v = add(new_size as isize - layout.size() as isize);
        if v > LIMIT.load(Ordering::Relaxed) {
            let msg = b"VERIF-ALLOC-BUDGET one thread exceeded its budget of live allocations (runaway allocation in the code under test)\n";
            libc_write(msg);
            add(-(new_size as isize - layout.size() as isize));
            return std::ptr::null_mut();
        }
        if v > 0 && (v as usize) > PEAK.load(Ordering::Relaxed) {
            PEAK.fetch_max(v as usize, Ordering::Relaxed);
        }
        System.realloc(ptr, layout, new_size)
    }
}

/// write(2) to stderr without allocating
fn libc_write(msg: &[u8]) {
    extern "C" {
        fn write(fd: i32, buf: *const u8, count: usize) -> isize;
    }
    unsafe {
        let _ = write(2, msg.as_ptr(), msg.len());
    }
}
