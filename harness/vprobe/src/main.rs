//! Compile-only probe for the first clause of C14: "a downstream crate can define its own cell and face integrals".
//! This crate uses nothing but the public API of meshless_voronoi with its default features (no `verif` hooks). If the
//! bound `M: ConvexCellMarker` of the trait methods cannot be named from outside the crate, it does not compile.
use glam::DVec3;
use meshless_voronoi::integrals::{CellIntegral, FaceIntegral};
use meshless_voronoi::{ConvexCell, ConvexCellMarker};

#[derive(Default, Clone)]
struct Count(usize);

impl CellIntegral for Count {
    fn init<M: ConvexCellMarker>(_cell: &ConvexCell<M>) -> Self {
        Count(0)
    }
    fn collect(&mut self, _v0: DVec3, _v1: DVec3, _v2: DVec3, _gen: DVec3) {
        self.0 += 1;
    }
    fn finalize(self) -> Self {
        self
    }
}

impl FaceIntegral for Count {
    fn init<M: ConvexCellMarker>(_cell: &ConvexCell<M>, _clipping_plane_idx: usize) -> Self {
        Count(0)
    }
    fn collect(&mut self, _v0: DVec3, _v1: DVec3, _v2: DVec3, _gen: DVec3) {
        self.0 += 1;
    }
    fn finalize(self) -> Self {
        self
    }
}

fn main() {
    let pts = [DVec3::new(0.25, 0.5, 0.5), DVec3::new(0.75, 0.5, 0.5)];
    let vi = meshless_voronoi::VoronoiIntegrator::build(&pts, None, DVec3::ZERO, DVec3::ONE, meshless_voronoi::Dimensionality::ThreeD, false);
    let c: Vec<Count> = vi.compute_cell_integrals();
    let f = vi.compute_face_integrals::<Count>();
    println!("probe ok: {} cell integrals ({} tetrahedra in the first), {} face integrals", c.len(), c[0].0, f.len());
}
