//! C10 (the exact in-sphere predicate returns the true sign; the position -> grid map is monotone and stays inside
//! the domain) and C11 (all big-integer back ends agree).

use crate::common::*;
use crate::p_exact::check_exact_log;
use crate::props::*;
use crate::Args;
use glam::DVec3;
use meshless_voronoi::verif::{self, Grid};
use serde_json::{json, Value};
use vcore::case::{gen_case, random_box, GenOpts};
use vcore::digest::Digest;
use vcore::report::{Report, Violation};
use vcore::rng::Rng;
use vcore::wide;

pub type Tuple = [[i64; 3]; 5];
const TOP: i64 = (1i64 << 52) - 1;

fn sign_of(x: f64) -> i32 {
    if x < 0. {
        -1
    } else if x > 0. {
        1
    } else {
        0
    }
}

/// Evaluate the real predicate on one tuple and compare with the oracles. Returns the sign returned by the library.
pub fn check_tuple(prop: &str, t: &Tuple, stream: &str, rep: &mut Report) -> i32 {
    let r = match guarded(|| verif::in_sphere_exact(&t[0], &t[1], &t[2], &t[3], &t[4])) {
        Ok(r) => r,
        Err(p) => {
            rep.violations.push(Violation::new(prop, "c10.predicate_panic", format!("{stream}: the exact predicate panicked at {}:{}: {}", p.file, p.line, p.message), None, json!({"tuple": t, "stream": stream})));
            return 9;
        }
    };
    let want = wide::in_sphere_sign(&t[0], &t[1], &t[2], &t[3], &t[4]);
    rep.count("tuples_checked", 1);
    match want {
        0 => rep.count("tuples_with_zero_determinant", 1),
        1 => rep.count("tuples_positive", 1),
        _ => rep.count("tuples_negative", 1),
    }
    if !(r == 0. || r == 1. || r == -1.) || sign_of(r) != want {
        rep.violations.push(Violation::new(prop, "c10.wrong_sign", format!("{stream}: in_sphere_exact returned {r} for a tuple whose in-sphere determinant has sign {want}: {t:?}"), None, json!({"tuple": t, "stream": stream, "result": r, "oracle": want})));
    }
    // geometric meaning through the second, independent formulation (rational circumsphere)
    let (o, g) = wide::in_sphere_geometric(&t[0], &t[1], &t[2], &t[3], &t[4]);
    if o != 0 {
        rep.count("tuples_with_geometric_meaning_checked", 1);
        if o * g != want {
            // the two oracles disagree: that is a defect of the harness, never a verdict on the library
            rep.inconclusive(format!("oracle self-check failed on {t:?}: determinant sign {want}, orientation {o} x side {g}"));
        } else if o > 0 {
            // positively oriented: negative iff strictly inside, zero iff on the sphere
            let inside = g < 0;
            let on = g == 0;
            if (r < 0.) != inside || (r == 0.) != on {
                rep.violations.push(Violation::new(prop, "c10.geometric_meaning", format!("{stream}: positively oriented tetrahedron, query point is {} the circumsphere, predicate returned {r}: {t:?}", if inside { "strictly inside" } else if on { "exactly on" } else { "outside" }), None, json!({"tuple": t, "stream": stream, "result": r})));
            }
        }
    }
    sign_of(r)
}

fn small_tuple(code: u64, base: u64, off: i64) -> Tuple {
    let mut t = [[0i64; 3]; 5];
    let mut c = code;
    for p in t.iter_mut() {
        for x in p.iter_mut() {
            *x = (c % base) as i64 + off;
            c /= base;
        }
    }
    t
}

fn random_tuple(r: &mut Rng, bits: u32) -> Tuple {
    let mut t = [[0i64; 3]; 5];
    let m = (1u64 << bits) - 1;
    for p in t.iter_mut() {
        for x in p.iter_mut() {
            *x = (r.u64() & m) as i64;
        }
    }
    t
}

/// Five points exactly on one sphere: centre + signed permutations of one integer vector.
fn cospherical_tuple(r: &mut Rng, bits: u32) -> Option<Tuple> {
    let m = 1i64 << bits;
    let v = [r.irange(0, m - 1), r.irange(0, m - 1), r.irange(0, m - 1)];
    let c = [r.irange(m, TOP - m), r.irange(m, TOP - m), r.irange(m, TOP - m)];
    let perms = [[0, 1, 2], [0, 2, 1], [1, 0, 2], [1, 2, 0], [2, 0, 1], [2, 1, 0]];
    let mut pts: Vec<[i64; 3]> = vec![];
    let mut tries = 0;
    while pts.len() < 5 && tries < 100 {
        tries += 1;
        let p = r.pick(&perms);
        let s = [if r.bool() { 1 } else { -1 }, if r.bool() { 1 } else { -1 }, if r.bool() { 1 } else { -1 }];
        let q = [c[0] + s[0] * v[p[0]], c[1] + s[1] * v[p[1]], c[2] + s[2] * v[p[2]]];
        if !pts.contains(&q) {
            pts.push(q);
        }
    }
    if pts.len() < 5 {
        return None;
    }
    Some([pts[0], pts[1], pts[2], pts[3], pts[4]])
}

fn in_range(t: &Tuple) -> bool {
    t.iter().all(|p| p.iter().all(|&x| (0..=TOP).contains(&x)))
}

/// The tuple streams shared by C10 and C11. `f` is called for every tuple with the name of its stream.
pub fn tuple_streams(a: &Args, label: &str, exhaustive_012: bool, nrandom: u64, f: &mut dyn FnMut(&Tuple, &str)) {
    // (a) exhaustive {0,1}^3, at the bottom and at the top of the range
    for code in 0..(1u64 << 15) {
        f(&small_tuple(code, 2, 0), "exhaustive{0,1}^3");
        f(&small_tuple(code, 2, TOP - 1), "exhaustive{0,1}^3@top");
    }
    // {0,1,2}^3: complete (thorough) or a seeded slice
    let total = 27u64.pow(5);
    if exhaustive_012 {
        for code in 0..total {
            f(&small_tuple(code, 3, 0), "exhaustive{0,1,2}^3");
        }
        let mut r = Rng::stream(label, &[a.seed, 11]);
        for _ in 0..2_000_000 {
            f(&small_tuple(r.u64() % total, 3, TOP - 2), "slice{0,1,2}^3@top");
        }
    } else {
        let mut r = Rng::stream(label, &[a.seed, 12]);
        for _ in 0..nrandom {
            f(&small_tuple(r.u64() % total, 3, 0), "slice{0,1,2}^3");
            f(&small_tuple(r.u64() % total, 3, TOP - 2), "slice{0,1,2}^3@top");
        }
    }
    // (b) random tuples: full range and narrower ranges (more zero / small determinants)
    let mut r = Rng::stream(label, &[a.seed, 13]);
    for k in 0..nrandom {
        let bits = [52, 52, 40, 20, 8, 3][(k % 6) as usize];
        f(&random_tuple(&mut r, bits), "random");
    }
    // (c) adversarial: exactly co-spherical tuples and their +-1 perturbations, coplanar quadruples, repeated points
    let mut r = Rng::stream(label, &[a.seed, 14]);
    for k in 0..nrandom / 4 {
        let bits = [4, 10, 20, 30, 40, 49][(k % 6) as usize];
        if let Some(t) = cospherical_tuple(&mut r, bits) {
            f(&t, "cospherical");
            for d in [-1i64, 1] {
                let mut u = t;
                let (pt, ax) = (r.below(5), r.below(3));
                u[pt][ax] += d;
                if in_range(&u) {
                    f(&u, "cospherical+-1");
                }
            }
        }
        // coplanar quadruple (a, b, c, d in a common plane): d = a + (b-a) + (c-a)
        let mut t = random_tuple(&mut r, 50);
        for ax in 0..3 {
            t[3][ax] = t[1][ax] + t[2][ax] - t[0][ax];
        }
        if in_range(&t) {
            f(&t, "coplanar_quadruple");
        }
        // repeated points
        let mut t = random_tuple(&mut r, 52);
        let (i, j) = (r.below(5), r.below(5));
        t[i] = t[j];
        f(&t, "repeated_point");
    }
}

// ------------------------------------------------------------------------------------------------
// grid map

fn check_grid(prop: &str, rep: &mut Report, r: &mut Rng) {
    let b = random_box(r);
    let dim = *r.pick(&[3usize, 3, 2, 1]);
    let periodic = r.bool();
    let (mut a, mut w) = (b.anchor, b.width);
    if dim <= 2 {
        a.z = -0.5;
        w.z = 1.;
    }
    if dim == 1 {
        a.y = -0.5;
        w.y = 1.;
    }
    let grid = Grid::cuboid(a, w, periodic, dimn(dim));
    // walls of the initial cell
    let (mut lo, mut hi) = (a, a + w);
    if periodic {
        for k in 0..dim {
            lo[k] -= w[k];
            hi[k] += w[k];
        }
    }
    // generators: in the closed box, on its boundary, one ulp inside; projected (unused coordinates = 0)
    let mut gens: Vec<DVec3> = vec![];
    let edge = |k: usize, r: &mut Rng| -> f64 {
        let x = match r.below(6) {
            0 => a[k],
            1 => a[k] + w[k],
            2 => f64::from_bits(a[k].to_bits().wrapping_add(if a[k] >= 0. { 1 } else { u64::MAX })),
            3 => a[k] + 0.5 * w[k],
            _ => a[k] + r.f() * w[k],
        };
        x.clamp(a[k], a[k] + w[k])
    };
    for _ in 0..24 {
        let mut p = DVec3::ZERO;
        for k in 0..dim {
            p[k] = edge(k, r);
        }
        gens.push(p);
    }
    let mut queries: Vec<DVec3> = vec![];
    for &g in &gens {
        queries.push(g);
        // periodic images
        if periodic {
            for sx in -1..=1 {
                for sy in -1..=1 {
                    for sz in -1..=1 {
                        let s = DVec3::new(sx as f64 * w.x, if dim >= 2 { sy as f64 * w.y } else { 0. }, if dim >= 3 { sz as f64 * w.z } else { 0. });
                        queries.push(g + s);
                    }
                }
            }
        }
        // mirror images through the six walls of the initial cell (computed as the library does: 2 * projection - g)
        for k in 0..3 {
            for wall in [lo[k], hi[k]] {
                let mut proj = g;
                proj[k] = wall;
                queries.push(2. * proj - g);
            }
        }
    }
    let mut scaled_min = f64::INFINITY;
    let mut scaled_max = f64::NEG_INFINITY;
    let mut mapped: Vec<(DVec3, [i64; 3])> = vec![];
    for &q in &queries {
        match guarded(|| grid.iloc_raw(q)) {
            Err(p) => {
                let sc = Grid::last_scaled();
                rep.violations.push(Violation::new(prop, "c10.grid_out_of_domain", format!("iloc panicked ({}) for a position the algorithm can query: {q:?} in box anchor {a:?} width {w:?} periodic {periodic} dim {dim}; scaled coordinates {sc:?}", p.message), None, json!({"pos": v3j(q), "anchor": v3j(a), "width": v3j(w), "periodic": periodic, "dim": dim})));
                return;
            }
            Ok((sc, i)) => {
                rep.count("grid_positions_checked", 1);
                for k in 0..3 {
                    scaled_min = scaled_min.min(sc[k]);
                    scaled_max = scaled_max.max(sc[k]);
                    if !(sc[k] >= 1. && sc[k] < 2.) || !(0..=TOP).contains(&i[k]) {
                        rep.violations.push(Violation::new(prop, "c10.grid_out_of_domain", format!("position {q:?} (a generator, mirror image or periodic image) maps to scaled coordinate {:?} / grid point {:?}, outside [1,2) / [0,2^52); box anchor {a:?} width {w:?} periodic {periodic} dim {dim}", sc, i), None, json!({"pos": v3j(q), "anchor": v3j(a), "width": v3j(w), "periodic": periodic, "dim": dim})));
                        return;
                    }
                }
                mapped.push((q, i));
            }
        }
    }
    rep.max("c10.scaled_max", scaled_max);
    rep.max("c10.one_minus_scaled_min", 1. - scaled_min);
    // monotone per axis
    for k in 0..3 {
        let mut v: Vec<(f64, i64)> = mapped.iter().map(|(q, i)| (q[k], i[k])).collect();
        v.sort_by(|x, y| x.0.partial_cmp(&y.0).unwrap());
        for p in v.windows(2) {
            rep.count("grid_monotonicity_pairs", 1);
            if p[1].1 < p[0].1 {
                rep.violations.push(Violation::new(prop, "c10.grid_not_monotone", format!("axis {k}: position {:e} < {:e} but grid coordinate {} > {}; box anchor {a:?} width {w:?} periodic {periodic} dim {dim}", p[0].0, p[1].0, p[0].1, p[1].1), None, json!({"axis": k, "anchor": v3j(a), "width": v3j(w), "periodic": periodic, "dim": dim})));
                return;
            }
        }
    }
}

// ------------------------------------------------------------------------------------------------

/// Leg `pyexport`: a sample of tuples with the library's and the oracle's sign for pyref/insphere_check.py.
fn c10_export(a: &Args, rep: &mut Report) {
    let out = a.out_dir.clone().unwrap_or_else(|| a.verif_dir.clone()).join("evidence").join("legs");
    let _ = std::fs::create_dir_all(&out);
    let mut items = vec![];
    let mut idx = 0u64;
    let mut per_stream: std::collections::BTreeMap<String, u64> = std::collections::BTreeMap::new();
    tuple_streams(a, "C10py", false, 40_000, &mut |t, stream| {
        idx += 1;
        let seen = per_stream.entry(stream.to_string()).or_insert(0);
        *seen += 1;
        // thin the big streams, keep every adversarial tuple
        let keep = match stream {
            "random" | "slice{0,1,2}^3" | "slice{0,1,2}^3@top" => *seen % 8 == 0,
            "exhaustive{0,1}^3" | "exhaustive{0,1}^3@top" => *seen % 16 == 0,
            _ => true,
        };
        if !keep || items.len() >= 30_000 {
            return;
        }
        let lib = check_tuple("C10", t, stream, rep);
        rep.evaluations += 1;
        let w = wide::in_sphere_sign(&t[0], &t[1], &t[2], &t[3], &t[4]);
        items.push(json!({"t": t, "lib": lib, "wide": w}));
        let mut d = Digest::new();
        for p in t {
            for &x in p {
                d.u64(x as u64);
            }
        }
        rep.nontrivial.insert(d.0);
        if items.len() < 3 {
            rep.sample(json!({"stream": stream, "tuple": t}));
        }
    });
    std::fs::write(out.join("C10.py_export.json"), serde_json::to_string(&json!({"tuples": items})).unwrap()).expect("write export");
}

pub fn c10(a: &Args, rep: &mut Report) {
    if a.leg.as_deref() == Some("pyexport") {
        return c10_export(a, rep);
    }
    rep.rule = "cases = 5-tuples of integer grid points handed to the real predicate: ALL tuples of {0,1}^3 (at the bottom and translated to the top of the 52-bit range), {0,1,2}^3 completely (thorough) or a seeded slice (quick), random tuples over 52/40/20/8/3-bit ranges, exactly co-spherical tuples and their +-1 perturbations, coplanar quadruples, repeated points; plus the position->grid map on generators, mirror images and periodic images of seeded boxes; plus the exact decisions logged inside real builds; distinct = distinct tuple (hash) ; non-trivial = tuple with non-zero orientation or zero determinant (counted separately), every tuple is compared with the integer oracle".into();
    rep.assumptions = vec!["integer oracle vcore::wide (6 x 64 bit sign-magnitude, cofactor expansion along another row than the library) and a second formulation through the rational circumsphere; thorough: Python big integers on a sample".into()];
    let thorough = a.tier == "thorough";
    let nrandom = ncases(a, 1_000_000, 6_000_000);
    // split the tuple streams over the workers by tuple index
    let nw = n_workers() as u64;
    let seen_hash = std::sync::Mutex::new(std::collections::HashSet::<u64>::new());
    run_parallel(rep, nw, budget(a, 200., 2400.), |wk, rep| {
        let mut idx = 0u64;
        let mut local_hashes = std::collections::HashSet::new();
        let mut samples = 0;
        tuple_streams(a, "C10", thorough, nrandom, &mut |t, stream| {
            idx += 1;
            if idx % nw != wk {
                return;
            }
            let s = check_tuple("C10", t, stream, rep);
            rep.evaluations += 1;
            let mut d = Digest::new();
            for p in t {
                for &x in p {
                    d.u64(x as u64);
                }
            }
            if local_hashes.len() < 2_000_000 {
                local_hashes.insert(d.0);
            }
            if samples < 1 && stream == "cospherical+-1" {
                samples += 1;
                rep.sample(json!({"stream": stream, "tuple": t, "library_sign": s}));
            }
        });
        seen_hash.lock().unwrap().extend(local_hashes);
    });
    rep.nontrivial.extend(seen_hash.into_inner().unwrap());
    if thorough {
        rep.exhaustive = Some(false);
        rep.extra.insert("exhaustive_subspaces".into(), json!(["{0,1}^3 (32768 tuples, bottom and top of range)", "{0,1,2}^3 (14348907 tuples)"]));
    } else {
        rep.extra.insert("exhaustive_subspaces".into(), json!(["{0,1}^3 (32768 tuples, bottom and top of range)"]));
    }
    // grid map
    let ng = ncases(a, 3000, 100000);
    run_parallel(rep, ng, budget(a, 100., 600.), |k, rep| {
        let mut r = Rng::stream("C10grid", &[a.seed, k]);
        check_grid("C10", rep, &mut r);
        rep.count("grid_boxes_checked", 1);
    });
    // in situ: exact decisions of real builds of tie-rich inputs
    let nb = ncases(a, 200, 4000);
    let szs = [5usize, 8, 13, 27, 50, 100];
    run_parallel(rep, nb, budget(a, 100., 600.), |k, rep| {
        let o = GenOpts {
            sizes: &szs,
            families: &["lattice", "blattice", "tiny", "lattice", "uniform"],
            ..Default::default()
        };
        let c = gen_case("C10situ", &a.tier, a.seed, k, &o);
        match build_observed(&c, 4000, 0) {
            Ok(b) => {
                check_exact_log("C10", &c, &b.trace, rep);
                rep.count("in_situ_builds", 1);
                rep.sample(c.summary());
            }
            Err(p) => rep.violations.push(panic_violation("C10", &c, &p)),
        }
    });
    in_situ_many_planes(a, rep);
}

/// In situ, second workload: cells with MANY clipping planes (a centre inside a shell: about n planes; density gradients) in
/// boxes of 1e-15 / 1e-30, where every clip decision of every vertex goes through the exact predicate - the grid points handed
/// to the predicate for planes with large indices (beyond 64, 128, 256) are checked against the positions they stand for.
fn in_situ_many_planes(a: &Args, rep: &mut Report) {
    let nb = ncases(a, 24, 400);
    run_parallel(rep, nb, budget(a, 100., 600.), |k, rep| {
        let o = GenOpts {
            sizes: &[80, 150, 300],
            families: &["star", "star", "gradient"],
            dims: &[3, 3, 2],
            mild_box: true,
            ..Default::default()
        };
        let c0 = gen_case("C10planes", &a.tier, a.seed, k, &o);
        if c0.width.max_element() < 1e-12 {
            return;
        }
        let c = vcore::case::rescaled(&c0, if k % 2 == 0 { 1e-15 } else { 1e-30 });
        // (the trace is kept when the construction panics: the decisions logged up to the panic are checked all the same)
        meshless_voronoi::verif::trace_begin(400_000, 0);
        let r = guarded(|| build_integrator(&c));
        let trace = meshless_voronoi::verif::trace_end();
        check_exact_log("C10", &c, &trace, rep);
        match r {
            Ok(vi) => {
                rep.count("in_situ_builds_many_planes", 1);
                let most = vi.cells_iter().map(|x| x.clipping_planes.len()).max().unwrap_or(0);
                rep.max("in_situ_most_clipping_planes_of_one_cell", most as f64);
            }
            // a construction that panics on an input of the conditioned domain whose every decision is an exact one
            Err(p) => rep.violations.push(panic_violation("C10", &c, &p)),
        }
    });
}

pub fn replay_c10(v: &Value, rep: &mut Report) -> bool {
    let Some(t) = v["detail"]["tuple"].as_array() else { return false };
    let mut tu = [[0i64; 3]; 5];
    for (i, p) in t.iter().enumerate().take(5) {
        for (j, x) in p.as_array().unwrap().iter().enumerate().take(3) {
            tu[i][j] = x.as_i64().unwrap();
        }
    }
    check_tuple("C10", &tu, "replay", rep);
    true
}

// ------------------------------------------------------------------------------------------------
// C11

/// One leg = one build of the library with a given back end. Writes `evidence/legs/C11.<backend>.digests`:
/// one line per item (tuple chunk or tessellation) with a hash of what the library returned.
pub fn c11_leg(a: &Args, rep: &mut Report, out_dir: &std::path::Path) -> Vec<String> {
    let backend = backend_name();
    let mut lines: Vec<String> = vec![];
    // predicate sign sequences, in chunks
    let nrandom = ncases(a, 200_000, 2_000_000);
    let mut chunk = Digest::new();
    let mut in_chunk = 0u64;
    let mut idx = 0u64;
    tuple_streams(a, "C11", false, nrandom, &mut |t, stream| {
        idx += 1;
        let s = check_tuple("C11", t, stream, rep);
        rep.evaluations += 1;
        chunk.byte((s + 2) as u8);
        in_chunk += 1;
        if in_chunk == 4096 {
            lines.push(format!("tuples {:>10} {}", idx, chunk.hex()));
            chunk = Digest::new();
            in_chunk = 0;
        }
    });
    lines.push(format!("tuples {:>10} {}", idx, chunk.hex()));
    // tie-rich tessellations
    let nb = ncases(a, 600, 6000);
    let szs = [2usize, 4, 8, 13, 27, 50, 100];
    let results: Vec<std::sync::Mutex<String>> = (0..nb).map(|_| std::sync::Mutex::new(String::new())).collect();
    run_parallel(rep, nb, budget(a, 200., 1200.), |k, rep| {
        let o = GenOpts {
            sizes: &szs,
            families: &["lattice", "blattice", "tiny", "lattice", "uniform", "mildcluster"],
            ..Default::default()
        };
        let mut c = gen_case("C11tess", &a.tier, a.seed, k, &o);
        with_random_mask("C11mask", a, k, &mut c, 5);
        let line = match build_observed(&c, 4000, 0) {
            Ok(b) => {
                check_exact_log("C11", &c, &b.trace, rep);
                let direct = guarded(|| build_direct(&c)).map(|v| digest_voronoi(&v).hex()).unwrap_or_else(|p| p.signature());
                rep.count("tessellations_digested", 1);
                note_case(rep, &c, b.trace.exact_count > 0);
                format!("tess {k:>6} integrator {} direct {} faces {} exact_calls {} zeros {}", digest_voronoi(&b.v).hex(), direct, digest_faces(&b.nonsym).hex(), b.trace.exact_count, b.trace.exact_zero_count)
            }
            Err(p) => {
                rep.violations.push(panic_violation("C11", &c, &p));
                format!("tess {k:>6} {}", p.signature())
            }
        };
        *results[k as usize].lock().unwrap() = line;
    });
    lines.extend(results.into_iter().map(|m| m.into_inner().unwrap()));
    let legdir = out_dir.join("evidence").join("legs");
    let _ = std::fs::create_dir_all(&legdir);
    std::fs::write(legdir.join(format!("C11.{backend}.digests")), lines.join("\n") + "\n").expect("write digests");
    lines
}

pub fn backend_name() -> &'static str {
    if cfg!(feature = "b_dashu") {
        "dashu"
    } else if cfg!(feature = "b_malachite") {
        "malachite"
    } else if cfg!(feature = "b_num_bigint") {
        "num_bigint"
    } else {
        "ibig"
    }
}

pub fn c11(a: &Args, rep: &mut Report, out_dir: &std::path::Path) {
    rep.rule = "cases = items of a seeded corpus run through every back end build: chunks of 4096 predicate calls (exhaustive {0,1}^3, slices of {0,1,2}^3, random, co-spherical +-1, coplanar, repeated) and tie-rich tessellations (exact lattices, boundary lattices, tiny sets, clusters; one fifth partial); per item the hash of the returned signs / the bitwise digest of the tessellation (both routes, face integrals) is compared across the builds ibig, dashu, malachite, num_bigint; every sign is also compared with the integer oracle inside each build; distinct = distinct tessellation input hash; non-trivial = tessellation that made at least one exact predicate call".into();
    rep.assumptions = vec!["the rug back end cannot be built in this sandbox (gmp-mpfr-sys needs m4; system GMP too old) and is not covered".into()];
    let mine = c11_leg(a, rep, out_dir);
    if a.leg.is_some() {
        return;
    }
    // main leg (ibig): compare with the digests written by the other legs
    let legdir = out_dir.join("evidence").join("legs");
    let mut compared = vec![];
    for other in ["dashu", "malachite", "num_bigint"] {
        let path = legdir.join(format!("C11.{other}.digests"));
        let Ok(txt) = std::fs::read_to_string(&path) else {
            println!("BROKEN: digests of back end {other} are missing ({}); the C11 legs must run before the main leg", path.display());
            std::process::exit(2);
        };
        let theirs: Vec<&str> = txt.lines().collect();
        compared.push(other.to_string());
        if theirs.len() != mine.len() {
            rep.violations.push(Violation::new("C11", "c11.item_count", format!("back end {other} produced {} items, ibig {}", theirs.len(), mine.len()), None, json!({"backend": other})));
            continue;
        }
        for (x, y) in mine.iter().zip(theirs.iter()) {
            rep.count("items_compared_across_backends", 1);
            if x != y {
                // attach the input when the item is a tessellation
                let case = x.strip_prefix("tess").and_then(|r| r.split_whitespace().next()).and_then(|k| k.parse::<u64>().ok()).map(|k| {
                    let szs = [2usize, 4, 8, 13, 27, 50, 100];
                    let o = GenOpts {
                        sizes: &szs,
                        families: &["lattice", "blattice", "tiny", "lattice", "uniform", "mildcluster"],
                        ..Default::default()
                    };
                    let mut c = gen_case("C11tess", &a.tier, a.seed, k, &o);
                    with_random_mask("C11mask", a, k, &mut c, 5);
                    c
                });
                rep.violations.push(Violation::new("C11", "c11.backends_differ", format!("back ends ibig and {other} differ: ibig `{x}` vs {other} `{y}`"), case.as_ref(), json!({"backend": other, "ibig": x, "other": y})));
                break;
            }
        }
    }
    rep.extra.insert("backends_compared".into(), json!(["ibig", compared]));
}
