//! C09: results are a pure function of the input, independent of the thread schedule.

use crate::common::*;
use crate::props::*;
use crate::Args;
use glam::DVec3;
use meshless_voronoi::integrals::{AreaCentroidIntegral, AreaIntegral, VolumeCentroidIntegral, VolumeIntegral};
use meshless_voronoi::verif;
use meshless_voronoi::Voronoi;
use serde_json::json;
use std::collections::HashSet;
use vcore::case::{gen_case, gen_mask, Case, GenOpts};
use vcore::digest::Digest;
use vcore::report::{Report, Violation};
use vcore::rng::Rng;

/// Bitwise digest of everything the public API returns for one input: both construction routes, connectivity,
/// and every `compute_*` vector in order.
pub fn everything_digest(c: &Case) -> [u64; 6] {
    let direct = build_direct(c);
    let vi = build_integrator(c);
    let via = Voronoi::from(&vi);
    let mut d_cells = Digest::new();
    for x in vi.compute_cell_integrals::<VolumeCentroidIntegral>() {
        d_cells.f64(x.volume);
        d_cells.v3(x.centroid);
    }
    for x in vi.compute_cell_integrals_with_data::<(), VolumeIntegral>(&vec![(); c.n()]) {
        d_cells.f64(x.volume);
    }
    let nonsym = vi.compute_face_integrals::<AreaCentroidIntegral>();
    let sym = vi.compute_face_integrals_sym::<AreaCentroidIntegral>();
    let mut d_data = Digest::new();
    for f in vi.compute_face_integrals_with_data::<(), AreaIntegral>(&vec![(); c.n()]) {
        d_data.usize(f.left());
        d_data.opt_usize(f.right());
        d_data.f64(f.integral().area);
    }
    for f in vi.compute_face_integrals_sym_with_data::<(), AreaIntegral>(&vec![(); c.n()]) {
        d_data.usize(f.left());
        d_data.opt_usize(f.right());
        d_data.f64(f.integral().area);
    }
    if c.dim == 3 {
        // the with-faces integrator: vertices and face polygons in order
        let vf = vi.clone().with_faces();
        // one slot per generator, in order (a lost or moved slot panics or changes the digest)
        let slots = std::panic::catch_unwind(std::panic::AssertUnwindSafe(|| (0..c.n()).map(|i| vf.get_cell_at(i).map(|x| x.idx)).collect::<Vec<_>>()));
        match slots {
            Ok(v) => {
                for x in v {
                    d_data.opt_usize(x);
                }
            }
            Err(_) => d_data.byte(0xEE),
        }
        match std::panic::catch_unwind(std::panic::AssertUnwindSafe(|| digest_voronoi(&Voronoi::from(&vf)).0)) {
            Ok(x) => d_data.usize(x as usize),
            Err(_) => d_data.byte(0xEF),
        }
        for x in vf.compute_cell_integrals::<VolumeCentroidIntegral>() {
            d_data.f64(x.volume);
            d_data.v3(x.centroid);
        }
        for f in vf.compute_face_integrals::<AreaIntegral>() {
            d_data.usize(f.left());
            d_data.opt_usize(f.right());
            d_data.f64(f.integral().area);
        }
        for cell in vf.cells_iter() {
            d_data.usize(cell.idx);
            for f in 0..cell.face_count() {
                for &v in cell.face_vertices(f) {
                    d_data.usize(v);
                }
            }
            for v in &cell.vertices {
                d_data.v3(v.loc);
            }
        }
    }
    [digest_voronoi(&direct).0, digest_voronoi(&via).0, d_cells.0, digest_faces(&nonsym).0, digest_faces(&sym).0, d_data.0]
}

const PARTS: [&str; 6] = ["Voronoi::build", "Voronoi::from(&integrator)", "compute_cell_integrals", "compute_face_integrals", "compute_face_integrals_sym", "*_with_data / with_faces"];

#[cfg(feature = "par")]
fn in_pool_of<T: Send>(threads: usize, f: impl FnOnce() -> T + Send) -> T {
    let pool = rayon::ThreadPoolBuilder::new().num_threads(threads).build().expect("pool");
    pool.install(f)
}
#[cfg(not(feature = "par"))]
fn in_pool_of<T: Send>(_threads: usize, f: impl FnOnce() -> T + Send) -> T {
    f()
}

pub fn pool_sizes(tier: &str) -> Vec<usize> {
    if cfg!(not(feature = "par")) {
        vec![1]
    } else if tier == "miri" {
        vec![1, 3]
    } else if tier == "tsan" {
        vec![1, 2, 4, 8, 16]
    } else {
        vec![1, 2, 3, 4, 8, 16, 32, 64]
    }
}

/// Returns the reference (1-thread) digest of the case.
pub fn one_c09(prop: &str, c: &Case, tier: &str, repeats: usize, rep: &mut Report, orders: &mut HashSet<u64>) -> Option<[u64; 6]> {
    let base = match guarded(|| in_pool_of(1, || everything_digest(c))) {
        Ok(d) => d,
        Err(p) => {
            rep.violations.push(panic_violation(prop, c, &p));
            return None;
        }
    };
    let mut runs = 0;
    for &t in &pool_sizes(tier) {
        for rpt in 0..repeats {
            let jitter = if rpt % 2 == 1 { 0x9E37 + (t as u64) * 131 + rpt as u64 } else { 0 };
            verif::cell_trace_begin(jitter);
            let r = guarded(|| in_pool_of(t, || everything_digest(c)));
            let trace = verif::cell_trace_end();
            runs += 1;
            // the order in which cells were started, over all parallel loops of this run
            let mut od = Digest::new();
            for (_thr, idx) in &trace {
                od.usize(*idx);
            }
            orders.insert(od.0);
            let threads_used: HashSet<usize> = trace.iter().map(|x| x.0).collect();
            rep.max("c09.max_worker_threads_observed_in_one_run", threads_used.len() as f64);
            rep.count("cell_start_events_observed", trace.len() as u64);
            match r {
                Err(p) => {
                    rep.violations.push(panic_violation(prop, c, &p));
                    return Some(base);
                }
                Ok(d) => {
                    rep.count("runs_compared", 1);
                    if d != base {
                        let which: Vec<&str> = (0..6).filter(|&k| d[k] != base[k]).map(|k| PARTS[k]).collect();
                        rep.violations.push(Violation::new(prop, "c09.schedule_dependent_result", format!("the result with {t} worker threads (repeat {rpt}, jitter {}) differs bitwise from the single-thread result in: {which:?}", jitter != 0), Some(c), json!({"threads": t, "repeat": rpt, "jitter": jitter, "differs": which})));
                        return Some(base);
                    }
                }
            }
        }
    }
    let _ = runs;
    Some(base)
}

fn c09_case(a: &Args, k: u64, szs: &[usize]) -> Case {
    let o = GenOpts {
        sizes: szs,
        families: &["uniform", "uniform", "lattice", "mildcluster", "blattice"],
        ..Default::default()
    };
    let mut c = gen_case("C09", "any", a.seed, k, &o);
    if k % 3 == 1 {
        let mut r = Rng::stream("C09mask", &[a.seed, k]);
        c.mask = Some(gen_mask(c.n(), &mut r));
    }
    c
}

fn sizes_for(tier: &str) -> Vec<usize> {
    match tier {
        "miri" => vec![4, 6, 8],
        "tsan" => vec![100, 400, 1000],
        "thorough" => vec![200, 500, 1000, 2000, 5000],
        _ => vec![200, 500, 1000, 2000],
    }
}

pub fn c09(a: &Args, rep: &mut Report, out_dir: &std::path::Path) {
    rep.rule = "cases = seeded inputs (uniform, lattices, clusters; 200-5000 generators so that work stealing happens; one third partial; all dimensionalities, periodic or not); each is built through both routes and all compute_* entry points in rayon pools of 1,2,3,4,8,16,32,64 threads x repeats, every second repeat with pseudo-random busy waits injected at the start of each cell's closure; every run's bitwise digest must equal the single-thread digest, and (main leg) the digest of the build without the rayon feature; distinct_nontrivial = number of DISTINCT CELL START ORDERS observed through the on_cell_start hook (the schedules the comparison actually spanned)".into();
    rep.assumptions = vec![
        "schedules are sampled, not enumerated: the evidence reports how many distinct cell start orders were observed".into(),
        "ThreadSanitizer (leg tsan) and Miri (leg miri, thorough) watch the same loops for data races; races in code the workload does not reach are invisible".into(),
    ];
    let leg = a.leg.clone().unwrap_or_default();
    let tier: &str = if leg == "miri" || leg == "tsan" { &leg } else { &a.tier };
    let szs = sizes_for(tier);
    let (ncase, repeats) = match tier {
        "miri" => (ncases(a, 2, 2), 1),
        "tsan" => (ncases(a, 6, 24), 2),
        "thorough" => (ncases(a, 0, 300), 4),
        _ => (ncases(a, 24, 0), 2),
    };
    let mut orders: HashSet<u64> = HashSet::new();
    let mut lines = vec![];
    for k in 0..ncase {
        let c = c09_case(a, k, &szs);
        if let Some(d) = one_c09("C09", &c, tier, repeats, rep, &mut orders) {
            lines.push(format!("case {k:>5} n {:>5} {:016x} {:016x} {:016x} {:016x} {:016x} {:016x}", c.n(), d[0], d[1], d[2], d[3], d[4], d[5]));
        }
        rep.evaluations += 1;
        rep.sample(c.summary());
    }
    rep.nontrivial.extend(orders.iter().copied());
    rep.count("distinct_cell_start_orders", orders.len() as u64);
    if leg.is_empty() || leg == "norayon" {
        history_c09(a, rep);
        sequence_c09(a, rep);
    }
    let legdir = out_dir.join("evidence").join("legs");
    let _ = std::fs::create_dir_all(&legdir);
    let name = if cfg!(feature = "par") { "rayon" } else { "norayon" };
    if leg.is_empty() || leg == "norayon" {
        std::fs::write(legdir.join(format!("C09.{name}.digests")), lines.join("\n") + "\n").expect("write digests");
    }
    if leg.is_empty() {
        // main leg: compare with the sequential build
        let path = legdir.join("C09.norayon.digests");
        match std::fs::read_to_string(&path) {
            Err(_) => {
                println!("BROKEN: digests of the build without the rayon feature are missing ({})", path.display());
                std::process::exit(2);
            }
            Ok(txt) => {
                let theirs: Vec<&str> = txt.lines().collect();
                if theirs.len() != lines.len() {
                    rep.violations.push(Violation::new("C09", "c09.norayon_item_count", format!("the build without rayon produced {} digests, the parallel build {}", theirs.len(), lines.len()), None, json!({})));
                }
                for (k, (x, y)) in lines.iter().zip(theirs.iter()).enumerate() {
                    rep.count("cases_compared_with_sequential_build", 1);
                    if x != y {
                        let c = c09_case(a, k as u64, &szs);
                        rep.violations.push(Violation::new("C09", "c09.differs_from_sequential_build", format!("parallel build and the build without the rayon feature differ: `{x}` vs `{y}`"), Some(&c), json!({"rayon": x, "norayon": y})));
                        break;
                    }
                }
            }
        }
        if orders.len() < 3 {
            rep.inconclusive(format!("only {} distinct cell start orders were observed: too few interleavings to call the comparison meaningful", orders.len()));
        }
    }
}


// ------------------------------------------------------------------------------------------------
// history independence: the result of a call must not depend on which calls came before it (caches, statics,
// thread-locals keyed by part of the input)

/// Variants of one input that collide on everything but one argument: same raw positions with another dimensionality,
/// periodic flag, box, mask; one generator moved; the list truncated or reversed.
fn history_variants(base: &Case, r: &mut Rng) -> Vec<Case> {
    let mut v = vec![];
    let mk = |f: &dyn Fn(&mut Case)| {
        let mut c = base.clone();
        f(&mut c);
        c.origin = format!("{}+variant", base.origin);
        c
    };
    v.push(base.clone());
    for d in [3usize, 2, 1] {
        if d != base.dim {
            v.push(mk(&|c| c.dim = d));
        }
    }
    v.push(mk(&|c| c.periodic = !c.periodic));
    // a larger box around the same points
    v.push(mk(&|c| {
        c.anchor -= 0.25 * c.width;
        c.width *= 1.5;
    }));
    let n = base.n();
    if n >= 2 {
        let m1: Vec<bool> = (0..n).map(|_| r.bool()).collect();
        let m2: Vec<bool> = m1.iter().map(|b| !b).collect();
        v.push(mk(&|c| c.mask = Some(m1.clone())));
        v.push(mk(&|c| {
            c.mask = Some(m1.clone());
            c.dim = if base.dim == 3 { 2 } else { 3 };
        }));
        v.push(mk(&|c| c.mask = Some(m2.clone())));
        let j = r.below(n);
        let t = DVec3::new(r.f(), r.f(), r.f());
        v.push(mk(&|c| c.pts[j] = c.anchor + c.width * t));
        v.push(mk(&|c| {
            c.pts.truncate(n - 1);
            if let Some(m) = c.mask.as_mut() {
                m.truncate(n - 1);
            }
        }));
        v.push(mk(&|c| c.pts.reverse()));
    }
    // only valid inputs (distinct after projection, inside the box)
    v.retain(|c| c.validity().is_ok());
    v
}

pub fn history_c09(a: &Args, rep: &mut Report) {
    let ninputs = if a.tier == "thorough" { 400 } else { 60 };
    let ninputs = ((ninputs as f64) * a.scale).ceil() as u64;
    run_parallel(rep, ninputs, budget(a, 100., 900.), |k, rep| {
        let o = GenOpts {
            sizes: &[3, 8, 27, 64, 150],
            families: &["uniform", "uniform", "lattice", "mildcluster", "gradient"],
            mild_box: true,
            ..Default::default()
        };
        let base = gen_case("C09history", "any", a.seed, k, &o);
        let mut r = Rng::stream("C09history", &[a.seed, k]);
        let vars = history_variants(&base, &mut r);
        // (1) every variant on a fresh OS thread (fresh thread-locals), each in a private single-thread pool
        let fresh: Vec<Option<[u64; 6]>> = vars
            .iter()
            .map(|c| std::thread::scope(|s| s.spawn(|| guarded(|| in_pool_of(1, || everything_digest(c))).ok()).join().ok().flatten()))
            .collect();
        // (2) all variants one after the other on ONE thread, forwards and backwards
        let run_seq = |order: &[usize]| -> Vec<(usize, Option<[u64; 6]>)> {
            std::thread::scope(|s| {
                s.spawn(|| in_pool_of(1, || order.iter().map(|&i| (i, guarded(|| everything_digest(&vars[i])).ok())).collect::<Vec<_>>())).join().unwrap_or_default()
            })
        };
        let fwd: Vec<usize> = (0..vars.len()).collect();
        let bwd: Vec<usize> = (0..vars.len()).rev().collect();
        let mut shuffled = fwd.clone();
        r.shuffle(&mut shuffled);
        for order in [&fwd, &bwd, &shuffled] {
            for (pos, (i, d)) in run_seq(order).into_iter().enumerate() {
                rep.count("history_calls_compared", 1);
                if d != fresh[i] {
                    let which: Vec<&str> = match (d, fresh[i]) {
                        (Some(x), Some(y)) => (0..6).filter(|&q| x[q] != y[q]).map(|q| PARTS[q]).collect(),
                        _ => vec!["one of the two runs panicked"],
                    };
                    rep.violations.push(Violation::new(
                        "C09",
                        "c09.depends_on_call_history",
                        format!("the result of a call depends on the calls made before it on the same thread: variant {i} of {} (dim {}, periodic {}, mask {}) as call #{pos} of a sequence differs from the same call on a fresh thread in {which:?}", base.origin, vars[i].dim, vars[i].periodic, vars[i].mask.is_some()),
                        Some(&vars[i]),
                        json!({"sequence": order, "position": pos, "variant": i, "differs": which, "previous_call": if pos > 0 { Some(vars[order[pos - 1]].to_json()) } else { None }}),
                    ));
                    return;
                }
            }
        }
        rep.count("history_inputs", 1);
        rep.count("history_variants", vars.len() as u64);
    });
}

// ------------------------------------------------------------------------------------------------
// call-sequence independence: what a public call returns must depend on the object's STATE (generators, box, mask, with or
// without faces), not on which other public calls were made on the object (or on an object it was cloned / converted from)
// before - lazily filled caches, state carried through `with_faces()` / `discard_faces()` / `Clone`.
// Reference = the same call on a freshly built object that was brought into the same state by the shortest route.

fn integrator_digest<M: meshless_voronoi::ConvexCellMarker + 'static>(vi: &meshless_voronoi::VoronoiIntegrator<M>, n: usize) -> u64 {
    let mut d = Digest::new();
    for x in vi.compute_cell_integrals::<VolumeCentroidIntegral>() {
        d.f64(x.volume);
        d.v3(x.centroid);
    }
    for f in vi.compute_face_integrals::<AreaCentroidIntegral>() {
        d.usize(f.left());
        d.opt_usize(f.right());
        d.opt_v3(f.shift());
        d.f64(f.integral().area);
        d.v3(f.integral().centroid);
    }
    for f in vi.compute_face_integrals_sym::<AreaCentroidIntegral>() {
        d.usize(f.left());
        d.opt_usize(f.right());
        d.opt_v3(f.shift());
        d.f64(f.integral().area);
        d.v3(f.integral().centroid);
    }
    for x in vi.compute_cell_integrals_with_data::<(), VolumeIntegral>(&vec![(); n]) {
        d.f64(x.volume);
    }
    d.usize(digest_voronoi(&Voronoi::from(vi)).0 as usize);
    d.0
}

fn cell_digest<M: meshless_voronoi::ConvexCellMarker + 'static>(cell: &meshless_voronoi::ConvexCell<M>, mask: &[bool]) -> u64 {
    let mut d = Digest::new();
    let x: VolumeCentroidIntegral = cell.compute_cell_integral(());
    d.f64(x.volume);
    d.v3(x.centroid);
    for f in cell.compute_face_integrals::<(), AreaCentroidIntegral>(()) {
        d.usize(f.left());
        d.opt_usize(f.right());
        d.opt_v3(f.shift());
        d.f64(f.integral().area);
        d.v3(f.integral().centroid);
    }
    for f in cell.compute_face_integrals_sym::<(), AreaIntegral>((), mask) {
        d.usize(f.left());
        d.opt_usize(f.right());
        d.f64(f.integral().area);
    }
    d.0
}

pub fn sequence_c09(a: &Args, rep: &mut Report) {
    let ninputs = if a.tier == "thorough" { 600 } else { 80 };
    let ninputs = ((ninputs as f64) * a.scale).ceil() as u64;
    run_parallel(rep, ninputs, budget(a, 100., 900.), |k, rep| {
        let o = GenOpts {
            sizes: &[2, 5, 13, 27, 64, 150],
            families: &["uniform", "uniform", "lattice", "mildcluster", "gradient", "star"],
            dims: &[3],
            mild_box: true,
            ..Default::default()
        };
        let mut c = gen_case("C09sequence", "any", a.seed, k, &o);
        let mut r = Rng::stream("C09sequence", &[a.seed, k]);
        if k % 2 == 1 {
            c.mask = Some(gen_mask(c.n(), &mut r));
        }
        let n = c.n();
        let mask: Vec<bool> = c.mask.clone().unwrap_or_else(|| vec![true; n]);
        let res = guarded(|| {
            let mut bad: Vec<String> = vec![];
            // references from fresh objects
            let r_wo = integrator_digest(&build_integrator(&c), n);
            let r_w = integrator_digest(&build_integrator(&c).with_faces(), n);
            let fresh = build_integrator(&c);
            let cr_wo: Vec<Option<u64>> = (0..n).map(|i| fresh.get_cell_at(i).map(|x| cell_digest(x, &mask))).collect();
            let cr_w: Vec<Option<u64>> = (0..n).map(|i| fresh.get_cell_at(i).map(|x| cell_digest(&x.clone().with_faces(), &mask))).collect();
            let mut calls = 0u64;
            // (a) integrals first, then clone / convert, then the integrals of the new state
            {
                let vi = build_integrator(&c);
                if integrator_digest(&vi, n) != r_wo {
                    bad.push("a second freshly built integrator gives other integrals than the first".into());
                }
                if integrator_digest(&vi, n) != r_wo {
                    bad.push("the second evaluation of the integrals on one integrator differs from the first".into());
                }
                let cl = vi.clone();
                if integrator_digest(&cl, n) != r_wo {
                    bad.push("integrals on a clone taken AFTER the integrals were evaluated differ from those of a fresh integrator".into());
                }
                let vf = cl.with_faces();
                if integrator_digest(&vf, n) != r_w {
                    bad.push("integrals on with_faces() of an integrator whose integrals were evaluated BEFORE the conversion differ from those of a fresh with_faces() integrator".into());
                }
                if integrator_digest(&vf, n) != r_w {
                    bad.push("the second evaluation on the with-faces integrator differs".into());
                }
                let vf2 = vf.clone();
                if integrator_digest(&vf2, n) != r_w {
                    bad.push("integrals on a clone of an evaluated with-faces integrator differ".into());
                }
                // the original is still usable and unchanged
                if integrator_digest(&vi, n) != r_wo {
                    bad.push("integrals of the original integrator changed after its clone was converted and evaluated".into());
                }
                calls += 7;
            }
            // (b) per cell, a random walk over {evaluate, clone, with_faces, discard_faces}; between the steps the cell with the
            // same index of ANOTHER tessellation (same box, same number of generators, other positions) is converted,
            // evaluated and discarded now and then - what is done to one object must not show in another one
            {
                let mut other = c.clone();
                other.pts = (0..n).map(|_| c.anchor + c.width * DVec3::new(r.f(), r.f(), r.f())).collect();
                other.mask = None;
                let vo = if other.validity().is_ok() { Some(build_integrator(&other)) } else { None };
                let allmask = vec![true; n];
                let fresh_other: Vec<Option<u64>> = (0..n).map(|i| vo.as_ref().and_then(|v| v.get_cell_at(i)).map(|x| cell_digest(&x.clone().with_faces(), &allmask))).collect();
                let vi = build_integrator(&c);
                let picks: Vec<usize> = (0..n).filter(|&i| vi.get_cell_at(i).is_some()).collect();
                for &i in picks.iter().take(40) {
                    let cell0 = vi.get_cell_at(i).unwrap();
                    let (want_wo, want_w) = (cr_wo[i].unwrap(), cr_w[i].unwrap());
                    let mut wo = Some(cell0.clone());
                    let mut w: Option<meshless_voronoi::ConvexCell<meshless_voronoi::WithFaces>> = None;
                    let mut trail = String::new();
                    for _ in 0..(3 + r.below(6)) {
                        if let (Some(v), true) = (vo.as_ref(), r.below(2) == 0) {
                            if let Some(x) = v.get_cell_at(i) {
                                trail.push('o');
                                let y = x.clone().with_faces();
                                calls += 1;
                                if Some(cell_digest(&y, &allmask)) != fresh_other[i] {
                                    bad.push(format!("cell {i} of a SECOND tessellation: its integrals with faces, evaluated between the steps `{trail}` on cell {i} of the first one (o = this evaluation), differ from those of a fresh cell"));
                                    break;
                                }
                                let _ = y.discard_faces();
                            }
                        }
                        match r.below(4) {
                            0 => {
                                // evaluate in the present state
                                let (got, want) = match (&wo, &w) {
                                    (Some(x), _) => (cell_digest(x, &mask), want_wo),
                                    (_, Some(x)) => (cell_digest(x, &mask), want_w),
                                    _ => unreachable!(),
                                };
                                trail.push('E');
                                calls += 1;
                                if got != want {
                                    bad.push(format!("cell {i}: after the call sequence `{trail}` (E evaluate, C clone, W with_faces, D discard_faces, o = with_faces / evaluate / discard_faces on the cell with the same index of another tessellation) the integrals differ from those of a fresh cell in the same state"));
                                    break;
                                }
                            }
                            1 => {
                                trail.push('C');
                                if let Some(x) = &wo {
                                    wo = Some(x.clone());
                                }
                                if let Some(x) = &w {
                                    w = Some(x.clone());
                                }
                            }
                            2 => {
                                if let Some(x) = wo.take() {
                                    trail.push('W');
                                    w = Some(x.with_faces());
                                }
                            }
                            _ => {
                                if let Some(x) = w.take() {
                                    trail.push('D');
                                    wo = Some(x.discard_faces());
                                }
                            }
                        }
                    }
                    // always end with an evaluation in both states
                    let x = match (wo.take(), w.take()) {
                        (Some(x), _) => x,
                        (_, Some(x)) => x.discard_faces(),
                        _ => unreachable!(),
                    };
                    calls += 2;
                    if cell_digest(&x, &mask) != want_wo {
                        bad.push(format!("cell {i}: after `{trail}` and back to the state without faces the integrals differ from those of a fresh cell"));
                    }
                    let y = x.with_faces();
                    if cell_digest(&y, &mask) != want_w {
                        bad.push(format!("cell {i}: after `{trail}` and with_faces() the integrals differ from those of a fresh cell with faces"));
                    }
                    if bad.len() > 3 {
                        break;
                    }
                }
            }
            (bad, calls)
        });
        match res {
            Err(p) => rep.violations.push(panic_violation("C09", &c, &p)),
            Ok((bad, calls)) => {
                rep.count("sequence_calls_compared", calls);
                rep.count("sequence_inputs", 1);
                if let Some(first) = bad.first() {
                    rep.violations.push(Violation::new("C09", "c09.depends_on_call_sequence", format!("the result of a public call depends on the calls made on the object before: {first}"), Some(&c), json!({"all": bad})));
                }
            }
        }
    });
}

pub fn replay_c09(c: &Case, rep: &mut Report) {
    let mut orders = HashSet::new();
    one_c09("C09", c, "quick", 4, rep, &mut orders);
    println!("  distinct cell start orders in the replay: {}", orders.len());
}
