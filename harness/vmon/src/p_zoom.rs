//! Zoom inputs (vcore::case::zoom_case): a compact, well separated group of generators whose spacing h is 1e-8 .. 1e-4
//! of the box width W, in the middle of the box or straddling a periodic wall / edge / corner.
//!
//! The tolerance model of DESIGN 5.3 is relative to the box measure; a cell of 1e-24 box volumes gets no metric verdict
//! from it. This monitor judges the cells of the group at their own scale instead: the brute-force reference clipper is
//! run on the group in LOCAL coordinates (minimum-image differences to the first generator, magnitude ~ h m instead of
//! W), and every cell of the group that is bounded by group members only ("compact") is compared with it - volume, first
//! moment about the generator, the neighbour set, the periodic image each neighbour is reported with, face areas - with
//! tolerances built from the implementation's own conditioning (sum over its vertices of 64 u M / |det|, M the coordinate
//! magnitude in the box), i.e. about 1e-5 of the cell size at W / h = 1e8. Used by C01 (cells), C06 (periodic images),
//! C16 (safety radius against the local reference) and, through `one_c17`, C17.

use crate::common::*;
use crate::p_dim::face_tables;
use crate::props::*;
use glam::DVec3;
use serde_json::json;
use std::collections::BTreeMap;
use vcore::case::Case;
use vcore::refcell::{Key, RefSetup};
use vcore::report::{Report, Violation};

/// Local coordinates of the group: minimum-image difference to generator 0 on the active axes. Returns (q, in_group).
fn local_coords(c: &Case) -> (Vec<DVec3>, Vec<bool>) {
    let pts = c.proj_pts();
    let (_, w) = c.norm_box();
    let p0 = pts[0];
    let mut q = Vec::with_capacity(pts.len());
    let mut ing = Vec::with_capacity(pts.len());
    for p in &pts {
        let mut d = *p - p0;
        for ax in 0..c.dim {
            if c.periodic {
                if d[ax] > 0.5 * w[ax] {
                    d[ax] -= w[ax];
                } else if d[ax] < -0.5 * w[ax] {
                    d[ax] += w[ax];
                }
            }
        }
        let mut far = false;
        for ax in 0..c.dim {
            if d[ax].abs() > w[ax] / 32. {
                far = true;
            }
        }
        q.push(d);
        ing.push(!far);
    }
    (q, ing)
}

fn active_dist(a: DVec3, b: DVec3, dim: usize) -> f64 {
    let mut s = 0.;
    for ax in 0..dim {
        s += (a[ax] - b[ax]) * (a[ax] - b[ax]);
    }
    s.sqrt()
}

pub fn one_zoom(prop: &str, c: &Case, rep: &mut Report) {
    let n = c.n();
    let d = c.dim;
    let (q, ing) = local_coords(c);
    let group: Vec<usize> = (0..n).filter(|&i| ing[i]).collect();
    if group.len() < 3 {
        rep.count("zoom_inputs_without_group", 1);
        note_case(rep, c, false);
        return;
    }
    let (_, w) = c.norm_box();
    let pts = c.proj_pts();
    // ---- local reference
    let (mut lo, mut hi) = (DVec3::splat(f64::INFINITY), DVec3::splat(f64::NEG_INFINITY));
    for &i in &group {
        lo = lo.min(q[i]);
        hi = hi.max(q[i]);
    }
    let mut ext: f64 = 0.;
    for ax in 0..d {
        ext = ext.max(hi[ax] - lo[ax]);
    }
    let mut lc = Case {
        family: "zoomlocal".into(),
        dim: d,
        periodic: false,
        anchor: lo - DVec3::splat(4. * ext),
        width: (hi - lo) + DVec3::splat(8. * ext),
        pts: group.iter().map(|&i| q[i]).collect(),
        mask: None,
        origin: format!("{}+local", c.origin),
    };
    for ax in d..3 {
        lc.anchor[ax] = -0.5;
        lc.width[ax] = 1.;
    }
    let setup = RefSetup::new(&lc);
    // distance from the group to anything that is not in the local model: background generators, periodic images of
    // the group itself, the walls of a reflective box
    let others: Vec<DVec3> = (0..n).filter(|&i| !ing[i]).map(|i| q[i]).collect();
    let mut wmin = f64::INFINITY;
    for ax in 0..d {
        wmin = wmin.min(w[ax]);
    }
    // ---- the implementation
    // class of the input (for the survey): dimensionality and decade of spacing / width
    let mut nn = f64::INFINITY;
    for &i in group.iter().skip(1).take(50) {
        nn = nn.min(active_dist(q[i], q[group[0]], d));
    }
    let class = format!("d{}p{}_rel1e{}", d, c.periodic as u8, (nn / wmin).log10().round());
    let b = match build_observed(c, 0, 0) {
        Ok(b) => {
            rep.count(&format!("zoomclass_ok_{class}"), 1);
            b
        }
        Err(p) => {
            rep.count(&format!("zoomclass_panic_{class}"), 1);
            rep.violations.push(panic_violation(prop, c, &p));
            note_case(rep, c, false);
            return;
        }
    };
    let s = scales(c);
    let tabs = face_tables(&b.nonsym, n, w);
    let (a0, _) = c.norm_box();
    let mut compact = 0u64;
    for (li, &i) in group.iter().enumerate() {
        let rc = setup.cell(li);
        let rs = rc.summary();
        if rs.faces.iter().any(|(k, f)| matches!(k, Key::Wall(wk) if (*wk as usize) / 2 < d) && f.area > 0.) {
            continue; // a rim cell: bounded by the (artificial) local box
        }
        let mut rmax: f64 = 0.;
        for v in &rs.verts {
            rmax = rmax.max(active_dist(*v, q[i], d));
        }
        // nothing outside the local model may be closer than twice the farthest vertex
        let mut clear = 2.2 * rmax < wmin - ext;
        for o in &others {
            if active_dist(*o, q[i], d) < 2.2 * rmax {
                clear = false;
            }
        }
        if !c.periodic {
            for ax in 0..d {
                if pts[i][ax] - a0[ax] < 1.1 * rmax || a0[ax] + w[ax] - pts[i][ax] < 1.1 * rmax {
                    clear = false;
                }
            }
        }
        if !clear {
            continue;
        }
        let Some(cell) = b.vi.get_cell_at(i) else { continue };
        compact += 1;
        rep.count("zoom_compact_cells_compared", 1);
        let t = cell_tol(cell, &s);
        let vc = &b.v.cells()[i];
        // the local coordinates themselves carry the rounding of the differences (u M each)
        let dq = 8. * s.u * s.m;
        let tol_v = 8. * (t.delta + dq) * t.surface.min(rs.surface * 4.) + 1e-9 * rs.volume;
        rep.max("zoom.dV_over_tol", (vc.volume() - rs.volume).abs() / tol_v);
        rep.max("zoom.tolV_over_V", tol_v / rs.volume);
        if !(tol_v <= 0.05 * rs.volume) {
            // the comparison would not mean anything: the cell is ill-conditioned at this W / h
            rep.count("zoom_cells_ill_conditioned", 1);
            continue;
        }
        if !((vc.volume() - rs.volume).abs() <= tol_v) {
            rep.violations.push(Violation::new(prop, "zoom.cell_volume", format!("cell {i} of a compact group (spacing ~{:.1e} box widths): measure {:e}, brute-force reference in local coordinates {:e} (tol {:e})", rmax / wmin, vc.volume(), rs.volume, tol_v), Some(c), json!({"cell": i, "volume": vc.volume(), "reference": rs.volume, "tol": tol_v})));
        }
        // first moment about the generator
        let mi = (vc.centroid() - pts[i]) * vc.volume();
        let mr = rs.moment - q[i] * rs.volume;
        let tol_m = tol_v * 4. * rmax;
        let mut dm: f64 = 0.;
        for ax in 0..d {
            dm = dm.max((mi[ax] - mr[ax]).abs());
        }
        rep.max("zoom.dM_over_tol", dm / tol_m);
        if !(dm <= tol_m) {
            rep.violations.push(Violation::new(prop, "zoom.cell_moment", format!("cell {i} of a compact group: first moment about the generator {:?}, reference {:?} (tol {:e})", mi, mr, tol_m), Some(c), json!({"cell": i})));
        }
        // safety radius against the reference (C16 at the local scale)
        let sr = vc.safety_radius();
        if !(sr >= 2. * rmax * (1. - 1e-9) - 4. * (t.max_dv + dq)) {
            rep.violations.push(Violation::new(prop, "zoom.safety_radius", format!("cell {i} of a compact group: safety radius {:e} < 2 x farthest reference vertex {:e}", sr, 2. * rmax), Some(c), json!({"cell": i})));
        }
        // faces: neighbour, image, area
        let perim = match d {
            3 => 2. * std::f64::consts::PI * rmax,
            2 => 2.,
            _ => 0.,
        };
        let tol_a = 8. * (t.delta + dq) * perim + 1e-9 * rs.surface;
        let athr = 1e-6 * match d {
            3 => rmax * rmax,
            _ => rmax.powi(d as i32 - 1),
        };
        let mut ai: BTreeMap<usize, f64> = BTreeMap::new();
        for (k, f) in &tabs[i] {
            let Key::Gen(j, sh) = *k else { continue };
            // the image of j that is the near one: shift such that p_j + shift - p_i = q_j - q_i
            let mut near = ing[j];
            for ax in 0..d {
                let expect = ((q[j][ax] - q[i][ax]) - (pts[j][ax] - pts[i][ax])) / w[ax];
                if (expect - sh[ax] as f64).abs() > 0.25 {
                    near = false;
                }
            }
            if near {
                *ai.entry(j).or_insert(0.) += f.area;
            } else if f.area > tol_a.max(athr) {
                rep.violations.push(Violation::new(prop, "zoom.face_wrong_image", format!("cell {i} of a compact group has a face of area {:e} towards generator {j} with shift {:?}: not the neighbouring image (or not a member of the group)", f.area, sh), Some(c), json!({"cell": i, "neighbour": j, "shift": format!("{sh:?}")})));
            }
        }
        let mut ar: BTreeMap<usize, f64> = BTreeMap::new();
        for (k, f) in &rs.faces {
            if let Key::Gen(lj, _) = *k {
                *ar.entry(group[lj]).or_insert(0.) += f.area;
            }
        }
        let js: std::collections::BTreeSet<usize> = ai.keys().chain(ar.keys()).copied().collect();
        for j in js {
            let (x, y) = (ai.get(&j).copied().unwrap_or(0.), ar.get(&j).copied().unwrap_or(0.));
            rep.count("zoom_faces_compared", 1);
            rep.max("zoom.dA_over_tol", (x - y).abs() / tol_a.max(athr));
            if !((x - y).abs() <= tol_a.max(athr)) {
                let kind = if x == 0. { "zoom.neighbour_missing" } else if y == 0. { "zoom.neighbour_spurious" } else { "zoom.face_area" };
                rep.violations.push(Violation::new(prop, kind, format!("cell {i} of a compact group, neighbour {j}: face area {x:e}, reference {y:e} (tol {:e})", tol_a.max(athr)), Some(c), json!({"cell": i, "neighbour": j, "area": x, "reference": y})));
            }
        }
    }
    rep.count("zoom_inputs", 1);
    if c.periodic {
        // does the group straddle the periodic boundary? (then close neighbours are wrapped ones)
        let mut straddles = false;
        for &i in &group {
            for ax in 0..d {
                if (pts[i][ax] - pts[group[0]][ax] - q[i][ax]).abs() > 0.5 * w[ax] {
                    straddles = true;
                }
            }
        }
        if straddles {
            rep.count("zoom_inputs_straddling_periodic_boundary", 1);
        }
    }
    note_case(rep, c, compact > 0);
}
