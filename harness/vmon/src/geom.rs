//! Output oracles for C01-C04 (also used by C05 and C06 on their own inputs).

use crate::common::*;
use glam::DVec3;
use serde_json::json;
use std::collections::{BTreeMap, BTreeSet};
use vcore::case::Case;
use vcore::refcell::{Key, RSummary, RefSetup};
use vcore::report::{Report, Violation};

pub struct RefData {
    pub setup: RefSetup,
    /// summary per generator (None for cells that are not constructed)
    pub sums: Vec<Option<RSummary>>,
}

pub fn reference(c: &Case) -> RefData {
    let setup = RefSetup::new(c);
    let sums = (0..c.n()).map(|i| if is_active(c, i) { Some(setup.summary(i)) } else { None }).collect();
    RefData { setup, sums }
}

fn active_wall(k: u8, dim: usize) -> bool {
    (k as usize) / 2 < dim
}

/// C01: every constructed cell equals the brute-force reference cell (volume, first moment, vertices, faces),
/// membership oracle on every vertex.
pub fn check_c01(prop: &str, c: &Case, b: &Built, rd: &RefData, rep: &mut Report) {
    let s = scales(c);
    let gen_faces = gen_face_tables(b, c);
    let wall_faces = wall_face_tables(&b.v, c.n());
    let (a, w) = c.norm_box();
    let (lo, hi) = (rd.setup.lo, rd.setup.hi);
    let _ = (a, w);
    for i in 0..c.n() {
        let Some(cell) = b.vi.get_cell_at(i) else {
            if is_active(c, i) {
                rep.violations.push(Violation::new(prop, "c01.cell_missing", format!("active cell {i} not constructed"), Some(c), json!({"cell": i})));
            }
            continue;
        };
        let Some(rs) = &rd.sums[i] else { continue };
        let t = cell_tol(cell, &s);
        let vc = &b.v.cells()[i];
        rep.count("cells_checked", 1);
        rep.count("vertices_checked", cell.vertices.len() as u64);

        // ---- membership oracle (meaningful also for ill-conditioned cells)
        let g = rd.setup.pts[i];
        for (k, v) in cell.vertices.iter().enumerate() {
            let dv = vertex_delta(cell, k, &s);
            let slack_pos = 4. * dv + K * s.u * s.m;
            for ax in 0..3 {
                if v.loc[ax] < lo[ax] - slack_pos || v.loc[ax] > hi[ax] + slack_pos {
                    rep.violations.push(Violation::new(prop, "c01.vertex_outside_box", format!("cell {i} vertex {k} at {:?} outside the box [{:?},{:?}]", v.loc, lo, hi), Some(c), json!({"cell": i, "vertex": k})));
                }
            }
            let mut worst = 0.0f64;
            let mut worst_site = 0;
            for (si, site) in rd.setup.sites.iter().enumerate() {
                let h = site.pos;
                let dh = h - g;
                let lim = 2. * dh.length() * slack_pos;
                let val = dh.dot(2. * v.loc - g - h);
                if val > lim && val - lim > worst {
                    worst = val - lim;
                    worst_site = si;
                }
                if lim > 0. {
                    rep.max("c01.membership_excess_over_tol", val / lim);
                }
            }
            if worst > 0. {
                let site = rd.setup.sites[worst_site];
                rep.violations.push(Violation::new(
                    prop,
                    "c01.vertex_closer_to_other_site",
                    format!("cell {i}: vertex {k} at {:?} is closer to generator {} (image {:?}) than to its own generator", v.loc, site.idx, site.shift),
                    Some(c),
                    json!({"cell": i, "vertex": k, "site": site.idx, "shift": site.shift, "excess": worst}),
                ));
            }
        }

        if t.ill {
            rep.count("cells_ill_conditioned_metric_skipped", 1);
            continue;
        }

        // ---- volume, first moment
        let dv = (vc.volume() - rs.volume).abs();
        rep.max_at("c01.dV_over_tol", dv / t.tol_v, || format!("{} cell {i}", c.origin));
        if !(dv <= t.tol_v) {
            rep.violations.push(Violation::new(prop, "c01.volume", format!("cell {i}: volume {:e} vs reference {:e} (diff {:e} > tol {:e})", vc.volume(), rs.volume, dv, t.tol_v), Some(c), json!({"cell": i, "impl": vc.volume(), "ref": rs.volume, "tol": t.tol_v})));
        }
        let dm = (vc.centroid() * vc.volume() - rs.moment).abs().max_element();
        rep.max("c01.dM_over_tol", dm / t.tol_m);
        if !(dm <= t.tol_m) {
            rep.violations.push(Violation::new(prop, "c01.centroid", format!("cell {i}: first moment V*c {:?} vs reference {:?} (diff {:e} > tol {:e})", vc.centroid() * vc.volume(), rs.moment, dm, t.tol_m), Some(c), json!({"cell": i, "tol": t.tol_m, "diff": dm})));
        }

        // ---- vertex sets (two-sided Hausdorff distance)
        let vtol = 16. * t.max_dv + 64. * rd.setup.eps + t.delta;
        let mut h1: f64 = 0.;
        for v in &cell.vertices {
            let d = rs.verts.iter().map(|r| r.distance(v.loc)).fold(f64::INFINITY, f64::min);
            h1 = h1.max(d);
        }
        let mut h2: f64 = 0.;
        for r in &rs.verts {
            let d = cell.vertices.iter().map(|v| r.distance(v.loc)).fold(f64::INFINITY, f64::min);
            h2 = h2.max(d);
        }
        rep.max("c01.hausdorff_over_tol", h1.max(h2) / vtol);
        if !(h1.max(h2) <= vtol) {
            rep.violations.push(Violation::new(prop, "c01.vertices", format!("cell {i}: vertex set differs from the reference (Hausdorff {:e} / {:e} > tol {:e})", h1, h2, vtol), Some(c), json!({"cell": i, "impl_to_ref": h1, "ref_to_impl": h2, "tol": vtol})));
        }

        // ---- faces towards generators
        let mut keys: BTreeSet<Key> = BTreeSet::new();
        keys.extend(gen_faces[i].keys().copied());
        keys.extend(rs.faces.keys().filter(|k| matches!(k, Key::Gen(..))).copied());
        for k in keys {
            let fi = gen_faces[i].get(&k);
            let fr = rs.faces.get(&k);
            let ai = fi.map_or(0., |f| f.area);
            let ar = fr.map_or(0., |f| f.area);
            if let Key::Gen(_, sh) = k {
                if sh.contains(&99) {
                    // off-lattice shift: reported by C06, here it simply has no reference counterpart
                }
            }
            if let Some(f) = fi {
                if f.count > 1 {
                    rep.violations.push(Violation::new(prop, "c01.face_duplicate", format!("cell {i}: face {k:?} reported {} times", f.count), Some(c), json!({"cell": i})));
                }
            }
            let da = (ai - ar).abs();
            rep.max_at("c01.dA_over_tol", da / t.tol_a, || format!("{} cell {i} {k:?}", c.origin));
            rep.count("gen_faces_compared", 1);
            if !(da <= t.tol_a) {
                let kind = if fi.is_none() || (ai <= s.athr && ar > s.athr) {
                    "c01.face_missing"
                } else if fr.is_none() || (ar <= s.athr && ai > s.athr) {
                    "c01.face_spurious"
                } else {
                    "c01.face_area"
                };
                if ai > s.athr || ar > s.athr {
                    rep.violations.push(Violation::new(prop, kind, format!("cell {i}: face {k:?}: area {:e} vs reference {:e} (tol {:e})", ai, ar, t.tol_a), Some(c), json!({"cell": i, "key": format!("{k:?}"), "impl": ai, "ref": ar, "tol": t.tol_a})));
                }
            } else if let (Some(f), Some(r)) = (fi, fr) {
                // centroid through the area moment
                let dm = (f.centroid * f.area - r.moment).abs().max_element();
                rep.max("c01.dAM_over_tol", dm / t.tol_am);
                if !(dm <= t.tol_am) && (ai > s.athr) {
                    rep.violations.push(Violation::new(prop, "c01.face_centroid", format!("cell {i}: face {k:?}: area moment differs by {:e} (tol {:e})", dm, t.tol_am), Some(c), json!({"cell": i, "key": format!("{k:?}"), "diff": dm, "tol": t.tol_am})));
                }
            }
        }
        // ---- wall faces
        let mut keys: BTreeSet<Key> = BTreeSet::new();
        keys.extend(wall_faces[i].keys().copied());
        keys.extend(rs.faces.keys().filter(|k| matches!(k, Key::Wall(q) if active_wall(*q, c.dim))).copied());
        for k in keys {
            let fi = wall_faces[i].get(&k);
            let fr = rs.faces.get(&k);
            let ai = fi.map_or(0., |f| f.area);
            let ar = fr.map_or(0., |f| f.area);
            let da = (ai - ar).abs();
            rep.max("c01.dAwall_over_tol", da / t.tol_a);
            rep.count("wall_faces_compared", 1);
            if !(da <= t.tol_a) && (ai > s.athr || ar > s.athr) {
                rep.violations.push(Violation::new(prop, "c01.wall_face", format!("cell {i}: wall face {k:?}: area {:e} vs reference {:e} (tol {:e})", ai, ar, t.tol_a), Some(c), json!({"cell": i, "key": format!("{k:?}"), "impl": ai, "ref": ar})));
            }
            if let Key::Wall(q) = k {
                if q == 200 || !active_wall(q, c.dim) {
                    rep.violations.push(Violation::new(prop, "c01.wall_face_normal", format!("cell {i}: boundary face with a normal that is not an active axis direction"), Some(c), json!({"cell": i})));
                }
            }
        }
    }
}

/// C02: positive measures summing to the box measure (full builds only).
pub fn check_c02(prop: &str, c: &Case, b: &Built, rd: Option<&RefData>, rep: &mut Report) {
    if c.mask.as_ref().map_or(false, |m| m.iter().any(|&x| !x)) {
        return;
    }
    let s = scales(c);
    let mut tot = 0.;
    let mut tol = K * s.u * (1. + s.m / s.l) * s.vbox * (c.n() as f64).sqrt().max(1.);
    let mut any_ill = false;
    for i in 0..c.n() {
        let cell = b.vi.get_cell_at(i).expect("full build");
        let t = cell_tol(cell, &s);
        any_ill |= t.ill;
        tol += t.tol_v;
        let vol = b.v.cells()[i].volume();
        tot += vol;
        if !vol.is_finite() {
            rep.violations.push(Violation::new(prop, "c02.nonfinite", format!("cell {i}: volume {vol}"), Some(c), json!({"cell": i})));
        }
        if !(vol > 0.) {
            // positivity is only decidable when the true measure exceeds the rounding level
            let decidable = match rd.and_then(|r| r.sums[i].as_ref()) {
                Some(rs) => rs.volume > t.tol_v && !t.ill,
                None => false,
            };
            if decidable {
                rep.violations.push(Violation::new(prop, "c02.nonpositive", format!("cell {i}: volume {vol:e} is not positive (reference {:e})", rd.unwrap().sums[i].as_ref().unwrap().volume), Some(c), json!({"cell": i, "volume": vol})));
            } else {
                rep.inconclusive(format!("cell {i} has volume {vol:e} <= 0 but positivity is undecidable at this conditioning ({})", c.origin));
            }
        }
    }
    rep.count("sums_checked", 1);
    if any_ill {
        rep.count("sums_with_ill_conditioned_cells", 1);
    }
    let d = (tot - s.vbox).abs();
    rep.max("c02.dsum_over_tol", d / tol);
    rep.max("c02.dsum_rel", d / s.vbox);
    if !(d <= tol) {
        rep.violations.push(Violation::new(prop, "c02.sum", format!("sum of cell measures {:e} vs box measure {:e} (diff {:e} > tol {:e})", tot, s.vbox, d, tol), Some(c), json!({"sum": tot, "box": s.vbox, "tol": tol})));
    }
}

/// C03: reciprocity of the non-symmetric face integrals, single storage in the compact tessellation,
/// cancellation of an antisymmetric flux.
pub fn check_c03(prop: &str, c: &Case, b: &Built, rep: &mut Report) {
    let s = scales(c);
    let (_, w) = c.norm_box();
    let gen_faces = gen_face_tables(b, c);
    let tols: Vec<Option<CellTol>> = (0..c.n()).map(|i| b.vi.get_cell_at(i).map(|cell| cell_tol(cell, &s))).collect();
    let pts = c.proj_pts();
    // (a) both sides see the same face
    for i in 0..c.n() {
        if b.vi.get_cell_at(i).is_none() {
            continue;
        }
        for (k, f) in &gen_faces[i] {
            let Key::Gen(j, sh) = *k else { continue };
            if sh.contains(&99) || !is_active(c, j) || b.vi.get_cell_at(j).is_none() {
                continue;
            }
            let (ti, tj) = (tols[i].unwrap(), tols[j].unwrap());
            if ti.ill || tj.ill {
                rep.count("face_pairs_ill_conditioned_skipped", 1);
                continue;
            }
            let rk = Key::Gen(i, [-sh[0], -sh[1], -sh[2]]);
            let other = gen_faces[j].get(&rk);
            let aj = other.map_or(0., |o| o.area);
            let tol = ti.tol_a + tj.tol_a;
            let da = (f.area - aj).abs();
            rep.count("face_pairs_checked", 1);
            rep.max("c03.dA_over_tol", da / tol);
            if f.area > s.athr || aj > s.athr {
                if !(da <= tol) {
                    let kind = if other.is_none() { "c03.no_reciprocal_face" } else { "c03.reciprocal_area" };
                    rep.violations.push(Violation::new(prop, kind, format!("face {i}->{j} shift {sh:?}: area {:e}, seen from the other side {:e} (tol {:e})", f.area, aj, tol), Some(c), json!({"left": i, "right": j, "shift": sh, "a_left": f.area, "a_right": aj})));
                } else if let Some(o) = other {
                    // shifted centroid: centroid_j + shift_of(i->j) should be centroid_i  (cell j sees i at p_i - s.w)
                    let sv = DVec3::new(sh[0] as f64 * w.x, sh[1] as f64 * w.y, sh[2] as f64 * w.z);
                    let dm = (f.centroid * f.area - (o.centroid + sv) * o.area).abs().max_element();
                    let tolm = ti.tol_am + tj.tol_am;
                    rep.max("c03.dAM_over_tol", dm / tolm);
                    if !(dm <= tolm) {
                        rep.violations.push(Violation::new(prop, "c03.reciprocal_centroid", format!("face {i}->{j} shift {sh:?}: area moments differ by {:e} (tol {:e})", dm, tolm), Some(c), json!({"left": i, "right": j, "shift": sh})));
                    }
                }
            }
        }
    }
    // (b) compact tessellation: unshifted faces between two constructed cells stored exactly once and listed by both
    let v = &b.v;
    let mut stored: BTreeMap<(usize, usize), usize> = BTreeMap::new();
    let mut periodic: BTreeMap<(usize, usize, [i8; 3]), (f64, DVec3)> = BTreeMap::new();
    for (fi, f) in v.faces().iter().enumerate() {
        let Some(r) = f.right() else { continue };
        let l = f.left();
        match f.shift() {
            None => {
                if is_active(c, l) && is_active(c, r) {
                    *stored.entry((l.min(r), l.max(r))).or_insert(0) += 1;
                    // listed by both cells
                    for cell in [l, r] {
                        let n = v.cells()[cell].face_indices(v).iter().filter(|&&x| x == fi).count();
                        if n != 1 {
                            rep.violations.push(Violation::new(prop, "c03.face_not_listed_by_both", format!("face #{fi} ({l},{r}) is listed {n} times by cell {cell}"), Some(c), json!({"face": fi, "cell": cell})));
                        }
                    }
                }
            }
            Some(sv) => {
                if is_active(c, l) && is_active(c, r) {
                    periodic.insert((l, r, shift_key(Some(sv), w)), (f.area(), f.normal()));
                }
            }
        }
    }
    for ((l, r), n) in &stored {
        if *n != 1 {
            rep.violations.push(Violation::new(prop, "c03.face_stored_twice", format!("unshifted face between constructed cells {l} and {r} is stored {n} times"), Some(c), json!({"left": l, "right": r, "n": n})));
        }
    }
    // every non-negligible unshifted reciprocal pair of the integrator must be stored
    for i in 0..c.n() {
        for (k, f) in &gen_faces[i] {
            let Key::Gen(j, sh) = *k else { continue };
            if sh == [0, 0, 0] && i < j && is_active(c, j) && f.area > s.athr && !stored.contains_key(&(i, j)) {
                rep.violations.push(Violation::new(prop, "c03.face_not_stored", format!("face between constructed cells {i} and {j} (area {:e}) is absent from the compact tessellation", f.area), Some(c), json!({"left": i, "right": j})));
            }
        }
    }
    for ((l, r, sh), (area, normal)) in &periodic {
        if sh.contains(&99) {
            continue;
        }
        let (tl, tr) = (tols[*l].unwrap(), tols[*r].unwrap());
        if tl.ill || tr.ill || *area <= s.athr {
            continue;
        }
        rep.count("periodic_pairs_checked", 1);
        match periodic.get(&(*r, *l, [-sh[0], -sh[1], -sh[2]])) {
            None => rep.violations.push(Violation::new(prop, "c03.periodic_no_reciprocal", format!("periodic face {l}->{r} shift {sh:?} (area {:e}) has no reciprocal face", area), Some(c), json!({"left": l, "right": r, "shift": sh}))),
            Some((a2, n2)) => {
                if !((area - a2).abs() <= tl.tol_a + tr.tol_a) {
                    rep.violations.push(Violation::new(prop, "c03.periodic_area", format!("periodic face {l}->{r} shift {sh:?}: areas {:e} vs {:e}", area, a2), Some(c), json!({"left": l, "right": r})));
                }
                // each normal is (g_l - h) / |g_l - h| with coordinates of magnitude M: its error is ~ u M / distance
                let dist = (pts[*r] + DVec3::new(sh[0] as f64 * w.x, sh[1] as f64 * w.y, sh[2] as f64 * w.z) - pts[*l]).length();
                if (*normal + *n2).abs().max_element() > 64. * s.u * (1. + s.m / dist.max(1e-300)) {
                    rep.violations.push(Violation::new(prop, "c03.periodic_normal", format!("periodic face {l}->{r} shift {sh:?}: normals {:?} and {:?} are not opposite", normal, n2), Some(c), json!({"left": l, "right": r})));
                }
            }
        }
    }
    // (c) antisymmetric flux summed over all cells cancels (only meaningful when every cell is constructed)
    if c.mask.as_ref().map_or(true, |m| m.iter().all(|&x| x)) && tols.iter().all(|t| t.map_or(false, |t| !t.ill)) {
        // a face quantity that is the same seen from both sides; the flux A n phi is then antisymmetric in (i, j)
        let phi = |i: usize, j: usize| ((i as f64 + 1.) * 0.37).sin() + ((j as f64 + 1.) * 0.37).sin() + ((i * j) % 7) as f64;
        let mut flux = DVec3::ZERO;
        let mut tol: f64 = 0.;
        for i in 0..c.n() {
            let t = tols[i].unwrap();
            for (k, f) in &gen_faces[i] {
                let Key::Gen(j, sh) = *k else { continue };
                if sh.contains(&99) {
                    continue;
                }
                let sv = DVec3::new(sh[0] as f64 * w.x, sh[1] as f64 * w.y, sh[2] as f64 * w.z);
                let n = (pts[j] + sv - pts[i]).normalize();
                flux += f.area * n * phi(i, j);
                tol += 2. * t.tol_a;
            }
        }
        rep.count("flux_sums_checked", 1);
        rep.max("c03.flux_over_tol", flux.abs().max_element() / tol.max(1e-300));
        if !(flux.abs().max_element() <= tol) && tol > 0. {
            rep.violations.push(Violation::new(prop, "c03.flux", format!("antisymmetric flux does not cancel: {:?} (tol {:e})", flux, tol), Some(c), json!({"flux": v3j(flux), "tol": tol})));
        }
    }
}

/// C04: unit normals pointing away from the left generator, centroid on the bisector / wall, closure and the
/// divergence theorem per constructed cell. Works on the compact tessellation `v` (either route).
pub fn check_c04(prop: &str, c: &Case, b: &Built, v: &meshless_voronoi::Voronoi, rep: &mut Report) {
    let s = scales(c);
    let (a, w) = c.norm_box();
    let pts = c.proj_pts();
    let d = c.dim;
    // own-side periodic/boundary/interior faces per cell: from the compact structure. A cell's faces are those it
    // lists (left or unshifted right); periodic faces where the cell is on the right are not listed, but then the
    // cell has its own left-side copy, so the listed set is the complete boundary of the cell.
    let tols: Vec<Option<CellTol>> = (0..c.n()).map(|i| b.vi.get_cell_at(i).map(|cell| cell_tol(cell, &s))).collect();
    for i in 0..c.n() {
        let Some(_cell) = b.vi.get_cell_at(i) else { continue };
        let t = tols[i].unwrap();
        let g = pts[i];
        // a face listed by this cell was integrated by its LEFT cell: its accuracy is that of the left cell
        let mut sum_tol_a = 0.;
        let mut sum_tol_a_diam = 0.;
        let mut foreign_ill = false;
        let mut closure = DVec3::ZERO;
        let mut div = 0.;
        let mut nfaces = 0;
        let rmax = 0.5 * t.diam;
        for f in v.cells()[i].faces(v) {
            nfaces += 1;
            let left = f.left();
            let sign = if left == i { 1. } else { -1. };
            match tols[left] {
                Some(tl) => {
                    sum_tol_a += tl.tol_a;
                    sum_tol_a_diam += tl.tol_a * t.diam + tl.tol_am;
                    foreign_ill |= tl.ill;
                }
                None => foreign_ill = true,
            }
            let n = f.normal();
            c04_face(prop, c, &s, a, w, &pts, d, &tols, t, i, f, rep);
            closure += sign * f.area() * n;
            // for a face seen from the right, the centroid is the same point (no shift since it is unshifted)
            div += sign * f.area() * n.dot(f.centroid() - g);
        }
        if t.ill || foreign_ill {
            rep.count("cells_ill_conditioned_metric_skipped", 1);
            continue;
        }
        rep.count("cells_checked", 1);
        let tol_c = sum_tol_a;
        let cl = closure.abs().max_element();
        if std::env::var("VERIF_DEBUG").is_ok() {
            eprintln!("cell {i} g {:?} closure {:?} tol_c {:e} delta {:e} max_dv {:e} rmax {:e} L {:e} M {:e} nverts {}", g, closure, tol_c, t.delta, t.max_dv, rmax, s.l, s.m, _cell.vertices.len());
            for f in v.cells()[i].faces(v) {
                eprintln!("   face {}->{:?} shift {:?} area {:e} n {:?}", f.left(), f.right(), f.shift(), f.area(), f.normal());
            }
        }
        rep.max_at("c04.closure_over_tol", cl / tol_c, || format!("{} cell {i} nfaces {nfaces} delta {:e} tol_a {:e}", c.origin, t.delta, t.tol_a));
        if !(cl <= tol_c) {
            rep.violations.push(Violation::new(prop, "c04.closure", format!("cell {i}: sum of area-weighted outward normals = {:?} (tol {:e})", closure, tol_c), Some(c), json!({"cell": i, "closure": v3j(closure), "tol": tol_c})));
        }
        let vol = v.cells()[i].volume();
        let dd = (div / d as f64 - vol).abs();
        let tol_d = t.tol_v + sum_tol_a_diam;
        rep.max_at("c04.divergence_over_tol", dd / tol_d, || format!("{} cell {i}", c.origin));
        if !(dd <= tol_d) {
            rep.violations.push(Violation::new(prop, "c04.divergence", format!("cell {i}: (1/d) sum A n.(c-g) = {:e} but volume = {:e} (diff {:e} > tol {:e})", div / d as f64, vol, dd, tol_d), Some(c), json!({"cell": i, "div": div / d as f64, "volume": vol})));
        }
    }
    // no face may have a non-finite value
    for (fi, f) in v.faces().iter().enumerate() {
        if !(f.area().is_finite() && f.centroid().is_finite() && f.normal().is_finite()) {
            rep.violations.push(Violation::new(prop, "c04.nonfinite_face", format!("face #{fi} has non-finite values"), Some(c), json!({"face": fi})));
        }
    }
}

/// The per-face clauses of C04 for one face that cell `i` lists (or, for faces held outside a `Voronoi`, that was produced
/// for cell `i`): unit normal, direction away from the left generator, centroid on the bisector plane / wall.
#[allow(clippy::too_many_arguments)]
pub fn c04_face(prop: &str, c: &Case, s: &Scales, a: DVec3, w: DVec3, pts: &[DVec3], d: usize, tols: &[Option<CellTol>], t: CellTol, i: usize, f: &meshless_voronoi::VoronoiFace, rep: &mut Report) {
    let left = f.left();
    let n = f.normal();
    rep.count("faces_checked", 1);
    // unit length
    let dn = (n.length() - 1.).abs();
    rep.max("c04.unit_normal_err_over_8u", dn / (8. * s.u));
    if !(dn <= 8. * s.u) {
        rep.violations.push(Violation::new(prop, "c04.normal_not_unit", format!("face {}->{:?}: |n| - 1 = {:e}", left, f.right(), n.length() - 1.), Some(c), json!({"left": left, "right": f.right(), "normal": v3j(n)})));
    }
    let gl = pts[left];
    match f.right() {
        Some(r) => {
            let h = pts[r] + f.shift().unwrap_or(DVec3::ZERO);
            let dir = h - gl;
            let dl = dir.length();
            let cosd = n.dot(dir) / dl;
            // parallel and same direction: |n - dir/|dir|| small
            let dev = (n - dir / dl).length();
            // without a shift the difference of the two (exactly given) generator positions carries one rounding
            // only, whatever the distance of the box from the origin; with a shift, `right + shift` is rounded at
            // the magnitude of the image position first
            let tol_dir = match f.shift() {
                None => 16. * s.u,
                Some(_) => 16. * s.u * (1. + h.abs().max_element().max(pts[r].abs().max_element()) / dl),
            };
            rep.max("c04.normal_dir_err_over_tol", dev / tol_dir);
            if !(cosd > 0.) || !(dev <= tol_dir) {
                rep.violations.push(Violation::new(prop, "c04.normal_direction", format!("face {}->{} shift {:?}: normal {:?} does not point from the left generator to the right one (deviation {:e}, tol {:e})", left, r, f.shift(), n, dev, tol_dir), Some(c), json!({"left": left, "right": r, "normal": v3j(n), "dev": dev})));
            }
            // centroid on the bisector (only for faces of non-negligible area)
            let tf = tols[left].unwrap_or(t);
            let fan = fan_of(&tf, d);
            if f.area() > s.athr && !tf.ill {
                let mid = 0.5 * (gl + h);
                let res = (f.centroid() - mid).dot(dir / dl).abs();
                // the centroid is a signed combination of fan triangles (apex = projected generator); its
                // off-plane error is amplified by (sum of |triangle areas|) / (face area)
                let tolp = (4. * tf.max_dv + K * s.u * s.m) * (1. + fan / f.area());
                rep.max_at("c04.centroid_plane_res_over_tol", res / tolp, || format!("{} face {left}->{r} area {:e} res {:e}", c.origin, f.area(), res));
                if !(res <= tolp) {
                    rep.violations.push(Violation::new(prop, "c04.centroid_off_bisector", format!("face {}->{}: centroid is {:e} off the bisector plane (tol {:e})", left, r, res, tolp), Some(c), json!({"left": left, "right": r, "res": res})));
                }
            }
        }
        None => {
            // wall: outward axis direction, centroid on the wall
            match wall_of_normal(n) {
                Some(q) if (q as usize) / 2 < d => {
                    let ax = q as usize / 2;
                    let wallpos = if q % 2 == 0 { a[ax] } else { a[ax] + w[ax] };
                    if c.periodic {
                        rep.violations.push(Violation::new(prop, "c04.boundary_face_in_periodic", format!("cell {i} has a boundary face although the tessellation is periodic"), Some(c), json!({"cell": i})));
                    }
                    let tf = tols[left].unwrap_or(t);
                    let fan = fan_of(&tf, d);
                    if f.area() > s.athr && !tf.ill {
                        let res = (f.centroid()[ax] - wallpos).abs();
                        let tolp = (4. * tf.max_dv + K * s.u * s.m) * (1. + fan / f.area());
                        if !(res <= tolp) {
                            rep.violations.push(Violation::new(prop, "c04.centroid_off_wall", format!("cell {i}: wall face centroid {:e} off the wall", res), Some(c), json!({"cell": i, "res": res})));
                        }
                    }
                }
                _ => {
                    rep.violations.push(Violation::new(prop, "c04.wall_normal", format!("cell {i}: boundary face normal {:?} is not an outward active axis direction", n), Some(c), json!({"cell": i, "normal": v3j(n)})));
                }
            }
        }
    }
}

/// C04 on faces that live in caller-owned vectors: the public conversion primitive `VoronoiIntegrator::build_voronoi_cells`
/// appends the faces of every cell to the vector the caller passes for that cell. It is called twice on the same vectors
/// (a second pass into lists that already hold faces is what a caller who accumulates several integrators or masks does);
/// afterwards EVERY face in the vectors - those of the first call too - must still satisfy the per-face clauses.
pub fn check_c04_face_vectors(prop: &str, c: &Case, b: &Built, rep: &mut Report) {
    let s = scales(c);
    let (a, w) = c.norm_box();
    let pts = c.proj_pts();
    let tols: Vec<Option<CellTol>> = (0..c.n()).map(|i| b.vi.get_cell_at(i).map(|cell| cell_tol(cell, &s))).collect();
    let mut lists: Vec<Vec<meshless_voronoi::VoronoiFace>> = (0..c.n()).map(|_| vec![]).collect();
    let r = guarded(|| {
        let _ = b.vi.build_voronoi_cells(&mut lists);
        let first: Vec<usize> = lists.iter().map(|l| l.len()).collect();
        let _ = b.vi.build_voronoi_cells(&mut lists);
        first
    });
    let first = match r {
        Ok(f) => f,
        Err(p) => {
            rep.violations.push(Violation::new(prop, "totality.panic", format!("build_voronoi_cells panicked: {} at {}:{}", p.message, p.file, p.line), Some(c), json!({})));
            return;
        }
    };
    for i in 0..c.n() {
        let Some(t) = tols[i] else { continue };
        if lists[i].len() != 2 * first[i] {
            rep.violations.push(Violation::new(prop, "c04.face_vectors_count", format!("cell {i}: the second call of build_voronoi_cells appended {} faces, the first one {}", lists[i].len() - first[i].min(lists[i].len()), first[i]), Some(c), json!({"cell": i})));
            continue;
        }
        for f in &lists[i] {
            if !(f.area().is_finite() && f.centroid().is_finite() && f.normal().is_finite()) {
                rep.violations.push(Violation::new(prop, "c04.nonfinite_face", format!("cell {i}: a face in the caller's vector has non-finite values"), Some(c), json!({"cell": i})));
                continue;
            }
            c04_face(prop, c, &s, a, w, &pts, c.dim, &tols, t, i, f, rep);
            rep.count("faces_in_caller_vectors_checked", 1);
        }
    }
}

/// bound on the summed |area| of the fan triangles the implementation uses to integrate one face
fn fan_of(t: &CellTol, d: usize) -> f64 {
    let rmax = 0.5 * t.diam;
    match d {
        3 => std::f64::consts::PI * rmax * rmax,
        2 => 4. * rmax,
        _ => 1.,
    }
}
