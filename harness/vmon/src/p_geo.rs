//! C19 (public geometry helpers satisfy their defining equations) and C20 (auxiliary structures: uniform-grid k-NN,
//! bounding-sphere solvers).

use crate::common::*;
use crate::props::*;
use crate::Args;
use glam::DVec3;
use meshless_voronoi::geometry::{intersect_planes, signed_area_tri, signed_volume_tet, Plane, Sphere};
use meshless_voronoi::verif;
use serde_json::{json, Value};
use vcore::digest::Digest;
use vcore::report::{Report, Violation};
use vcore::rng::Rng;

fn vj(v: DVec3) -> Value {
    json!([format!("{:016x}", v.x.to_bits()), format!("{:016x}", v.y.to_bits()), format!("{:016x}", v.z.to_bits())])
}
fn jv(v: &Value) -> DVec3 {
    let a = v.as_array().unwrap();
    let f = |k: usize| f64::from_bits(u64::from_str_radix(a[k].as_str().unwrap(), 16).unwrap());
    DVec3::new(f(0), f(1), f(2))
}

fn unit(r: &mut Rng) -> DVec3 {
    loop {
        let v = DVec3::new(r.gauss(), r.gauss(), r.gauss());
        if v.length() > 1e-3 {
            return v.normalize();
        }
    }
}

/// random point: magnitude class x direction, optionally far from the origin
fn point(r: &mut Rng, scale: f64, offset: DVec3) -> DVec3 {
    offset + scale * DVec3::new(r.range(-1., 1.), r.range(-1., 1.), r.range(-1., 1.))
}

fn setting(r: &mut Rng) -> (f64, DVec3) {
    let scale = *r.pick(&[1., 1., 1e-6, 1e6, 1e-3, 37.]);
    let off = match r.below(4) {
        0 => DVec3::new(1e3, -1e3, 3e2) * scale,
        1 => DVec3::new(3.3, -7.1, 11.9) * scale,
        _ => DVec3::ZERO,
    };
    (scale, off)
}

const CU: f64 = 256. * U;

// ------------------------------------------------------------------------------------------------
// C19

#[derive(Clone, Debug)]
pub struct GeoCase {
    pub kind: String,
    pub pts: Vec<DVec3>,
}

impl GeoCase {
    fn json(&self) -> Value {
        json!({"kind": self.kind, "pts": self.pts.iter().map(|p| vj(*p)).collect::<Vec<_>>(), "pts_f64": self.pts.iter().map(|p| vec![p.x, p.y, p.z]).collect::<Vec<_>>()})
    }
    fn from(v: &Value) -> Option<GeoCase> {
        Some(GeoCase {
            kind: v["kind"].as_str()?.to_string(),
            pts: v["pts"].as_array()?.iter().map(jv).collect(),
        })
    }
}

fn viol(prop: &str, mon: &str, what: String, g: &GeoCase) -> Violation {
    Violation::new(prop, mon, what, None, json!({"geo": g.json()}))
}

/// Evaluate the defining equations of one helper on one argument tuple.
pub fn check_geo(prop: &str, g: &GeoCase, rep: &mut Report) {
    let p = &g.pts;
    let mag = p.iter().map(|v| v.abs().max_element()).fold(0., f64::max).max(1e-300);
    rep.count(&format!("evaluations.{}", g.kind), 1);
    match g.kind.as_str() {
        // pts: n0 p0 n1 p1 n2 p2
        "intersect_planes" => {
            let pl = [Plane::new(p[0], p[1]), Plane::new(p[2], p[3]), Plane::new(p[4], p[5])];
            let det = p[0].normalize().dot(p[2].normalize().cross(p[4].normalize())).abs();
            if det < 1e-8 {
                rep.count("ill_conditioned_arguments", 1);
                return;
            }
            let x = match guarded(|| intersect_planes(&pl[0], &pl[1], &pl[2])) {
                Ok(x) => x,
                Err(e) => {
                    rep.violations.push(viol(prop, "c19.intersect_planes_panic", format!("intersect_planes panicked on three independent planes (|det| = {det:e}): {}", e.message), g));
                    return;
                }
            };
            let scale = mag.max(x.abs().max_element());
            let tol = CU * scale / det;
            for k in 0..3 {
                let res = pl[k].n.normalize().dot(x - pl[k].p).abs();
                rep.max("c19.intersect_planes_res_over_tol", res / tol);
                if !(res <= tol) {
                    rep.violations.push(viol(prop, "c19.intersect_planes", format!("intersection {x:?} is {res:e} off plane {k} (tolerance {tol:e}, |det| = {det:e})"), g));
                    return;
                }
            }
        }
        // pts: n, p, point
        "project_onto" => {
            let pl = Plane::new(p[0], p[1]);
            let x = pl.project_onto(p[2]);
            let tol = CU * mag;
            let res = pl.n.normalize().dot(x - pl.p).abs();
            let side = (x - p[2]).cross(pl.n.normalize()).length();
            let again = pl.project_onto(x).distance(x);
            rep.max("c19.project_onto_res_over_tol", res.max(side).max(again) / tol);
            if !(res <= tol) {
                rep.violations.push(viol(prop, "c19.project_onto_off_plane", format!("projection {x:?} is {res:e} off the plane (tol {tol:e})"), g));
            } else if !(side <= tol) {
                rep.violations.push(viol(prop, "c19.project_onto_not_along_normal", format!("displacement of the projection has a component {side:e} orthogonal to the normal (tol {tol:e})"), g));
            } else if !(again <= tol) {
                rep.violations.push(viol(prop, "c19.project_onto_not_idempotent", format!("projecting the projection moves it by {again:e} (tol {tol:e})"), g));
            }
        }
        // pts: n, p, centre, (radius, 0, 0)
        "intersects_sphere" => {
            let pl = Plane::new(p[0], p[1]);
            let sp = Sphere::new(p[2], p[3].x);
            let got = pl.intersects_sphere(&sp);
            // distance of the centre from the plane; decided only when it differs from the radius by more than the rounding of
            // the projection (coordinates of magnitude `mag`) plus a relative margin of 1e-8
            let d = pl.n.normalize().dot(sp.center - pl.p).abs();
            let margin = 1e-8 * sp.radius + CU * mag;
            if (d - sp.radius).abs() <= margin {
                rep.count("ill_conditioned_arguments", 1);
                return;
            }
            let want = d < sp.radius;
            if got != want {
                rep.violations.push(viol(prop, "c19.intersects_sphere", format!("Plane::intersects_sphere is {got} for a sphere of radius {:e} whose centre is {d:e} from the plane", sp.radius), g));
            }
        }
        // pts: n1, p1, n2, p2, point
        "project_onto_intersection" => {
            let (a, b) = (Plane::new(p[0], p[1]), Plane::new(p[2], p[3]));
            let dir = a.n.normalize().cross(b.n.normalize());
            let s = dir.length();
            if s < 1e-6 {
                rep.count("ill_conditioned_arguments", 1);
                return;
            }
            let x = match guarded(|| a.project_onto_intersection(&b, p[4])) {
                Ok(x) => x,
                Err(e) => {
                    rep.violations.push(viol(prop, "c19.project_onto_intersection_panic", format!("project_onto_intersection panicked for two planes at angle sin = {s:e}: {}", e.message), g));
                    return;
                }
            };
            let tol = CU * mag.max(x.abs().max_element()) / (s * s);
            let (ra, rb) = (a.n.normalize().dot(x - a.p).abs(), b.n.normalize().dot(x - b.p).abs());
            let along = (x - p[4]).dot(dir / s).abs();
            let again = a.project_onto_intersection(&b, x).distance(x);
            rep.max("c19.project_onto_intersection_res_over_tol", ra.max(rb).max(along).max(again) / tol);
            if !(ra <= tol && rb <= tol) {
                rep.violations.push(viol(prop, "c19.project_onto_intersection_off_planes", format!("result {x:?} is {ra:e} / {rb:e} off the two planes (tol {tol:e})"), g));
            } else if !(along <= tol) {
                rep.violations.push(viol(prop, "c19.project_onto_intersection_not_orthogonal", format!("displacement has a component {along:e} along the intersection line (tol {tol:e})"), g));
            } else if !(again <= tol) {
                rep.violations.push(viol(prop, "c19.project_onto_intersection_not_idempotent", format!("projecting again moves the point by {again:e} (tol {tol:e})"), g));
            }
        }
        // pts: v0 v1 v2 v3 (integer coordinates for the exact value, possibly scaled/offset)
        "signed_volume_tet" => {
            let v = signed_volume_tet(p[0], p[1], p[2], p[3]);
            // exact value in extended precision: differences are formed in f64 exactly as any implementation must,
            // the triple product with compensated (two-product free) i128 arithmetic when the coordinates are integers
            let e = [p[1] - p[0], p[2] - p[0], p[3] - p[0]];
            let want = e[0].dot(e[1].cross(e[2])) / 6.;
            let lens = e[0].length() * e[1].length() * e[2].length();
            let tol = CU * (lens + mag * (e[0].length() * e[1].length() + e[1].length() * e[2].length() + e[0].length() * e[2].length()));
            rep.max("c19.volume_err_over_tol", (v - want).abs() / tol.max(1e-300));
            if !((v - want).abs() <= tol) {
                rep.violations.push(viol(prop, "c19.signed_volume_value", format!("signed_volume_tet = {v:e}, triple product / 6 = {want:e} (tol {tol:e})"), g));
                return;
            }
            // antisymmetry under each transposition, invariance under even permutations
            let swaps = [(0, 1), (0, 2), (0, 3), (1, 2), (1, 3), (2, 3)];
            for (i, j) in swaps {
                let mut q = [p[0], p[1], p[2], p[3]];
                q.swap(i, j);
                let w = signed_volume_tet(q[0], q[1], q[2], q[3]);
                if !((v + w).abs() <= 2. * tol) {
                    rep.violations.push(viol(prop, "c19.signed_volume_antisymmetry", format!("swapping vertices {i} and {j}: {v:e} -> {w:e} (not the negative within {tol:e})"), g));
                    return;
                }
            }
            let w = signed_volume_tet(p[1], p[2], p[0], p[3]);
            if !((v - w).abs() <= 2. * tol) {
                rep.violations.push(viol(prop, "c19.signed_volume_cyclic", format!("cyclic shift of the base: {v:e} -> {w:e}"), g));
            }
            // documented convention: positive if v0, v1, v2 are counter-clockwise as seen from v3
            let n = (p[1] - p[0]).cross(p[2] - p[0]);
            let h = n.dot(p[3] - p[0]);
            if h.abs() > 1e-6 * n.length() * (p[3] - p[0]).length() && v.abs() > 4. * tol {
                // counter-clockwise seen from v3 <=> v3 is on the side n points to
                if (v > 0.) != (h > 0.) {
                    rep.violations.push(viol(prop, "c19.signed_volume_convention", format!("sign convention: volume {v:e} but (v1-v0)x(v2-v0).(v3-v0) = {h:e}"), g));
                }
            }
        }
        // pts: v0 v1 v2 t
        "signed_area_tri" => {
            let a = signed_area_tri(p[0], p[1], p[2], p[3]);
            let n = (p[1] - p[0]).cross(p[2] - p[0]);
            let want = 0.5 * n.length();
            let el = (p[1] - p[0]).length() * (p[2] - p[0]).length();
            let tol = CU * (el + mag * ((p[1] - p[0]).length() + (p[2] - p[0]).length()));
            let h = n.dot(p[3] - p[0]);
            let clear = h.abs() > 1e-6 * n.length() * (p[3] - p[0]).length();
            rep.max("c19.area_err_over_tol", (a.abs() - want).abs() / tol.max(1e-300));
            if !((a.abs() - want).abs() <= tol) {
                rep.violations.push(viol(prop, "c19.signed_area_value", format!("|signed_area_tri| = {:e}, half cross product = {want:e} (tol {tol:e})", a.abs()), g));
                return;
            }
            if clear && want > 4. * tol {
                if (a > 0.) != (h > 0.) {
                    rep.violations.push(viol(prop, "c19.signed_area_convention", format!("sign convention: area {a:e} but the apex is on the side {h:e} of the oriented triangle"), g));
                    return;
                }
                let b = signed_area_tri(p[0], p[2], p[1], p[3]);
                if !((a + b).abs() <= 2. * tol) {
                    rep.violations.push(viol(prop, "c19.signed_area_antisymmetry", format!("swapping v1 and v2: {a:e} -> {b:e}"), g));
                    return;
                }
                let cyc = signed_area_tri(p[1], p[2], p[0], p[3]);
                if !((a - cyc).abs() <= 2. * tol) {
                    rep.violations.push(viol(prop, "c19.signed_area_cyclic", format!("cyclic shift of the vertices: {a:e} -> {cyc:e}"), g));
                }
            }
        }
        "sphere2" => {
            let s = Sphere::from_two_points(p[0], p[1]);
            let tol = CU * mag;
            let d = [(s.center.distance(p[0]) - s.radius).abs(), (s.center.distance(p[1]) - s.radius).abs()];
            let mid = s.center.distance(0.5 * (p[0] + p[1]));
            if !(d[0] <= tol && d[1] <= tol && mid <= tol) {
                rep.violations.push(viol(prop, "c19.sphere_two_points", format!("sphere through two points: distances to the points differ from the radius by {:e}, {:e}; centre {mid:e} off the midpoint", d[0], d[1]), g));
            }
        }
        "sphere3" => {
            let (a, b, c) = (p[0], p[1], p[2]);
            let nrm = (b - a).cross(c - a);
            // conditioning: the smallest sine among the three angles (twice the area over the product of the two longest
            // sides) - whichever vertex an implementation takes as its origin, it cannot do better than that
            let mut sides = [(b - a).length(), (c - a).length(), (c - b).length()];
            sides.sort_by(|x, y| y.partial_cmp(x).unwrap());
            let sinq = nrm.length() / (sides[0] * sides[1]).max(1e-300);
            if sinq < 1e-6 || sides[2] < 1e-3 * sides[0] {
                rep.count("ill_conditioned_arguments", 1);
                return;
            }
            let s = Sphere::from_three_points(a, b, c);
            let ext = (b - a).length().max((c - a).length());
            let tol = CU * (mag + ext) / (sinq * sinq);
            let mut worst: f64 = 0.;
            for q in [a, b, c] {
                worst = worst.max((s.center.distance(q) - s.radius).abs());
            }
            let off = (s.center - a).dot(nrm / nrm.length()).abs();
            rep.max("c19.sphere3_res_over_tol", worst.max(off) / tol);
            if !(worst <= tol) {
                rep.violations.push(viol(prop, "c19.sphere_three_points", format!("sphere through three points misses a point by {worst:e} (tol {tol:e})"), g));
            } else if !(off <= tol) {
                rep.violations.push(viol(prop, "c19.sphere_three_points_centre_off_plane", format!("centre is {off:e} off the plane of the three points (tol {tol:e})"), g));
            }
        }
        "sphere4" => {
            let (a, b, c, d) = (p[0], p[1], p[2], p[3]);
            let e = [b - a, c - a, d - a];
            let det = e[0].dot(e[1].cross(e[2])).abs();
            let lens = e[0].length() * e[1].length() * e[2].length();
            let cond = lens / det.max(1e-300);
            if !(det > 1e-6 * lens) || lens == 0. {
                rep.count("ill_conditioned_arguments", 1);
                return;
            }
            let s = Sphere::from_four_points(a, b, c, d);
            // from_four_points works on absolute coordinates (4x4 determinants with squared norms): the centre carries an
            // error ~ u M (M / extent)^3 and the radius, a difference of two terms of size M^2, ~ u M (M / extent)^4
            let ext = e[0].length().max(e[1].length()).max(e[2].length());
            let amp = (mag / ext).max(1.);
            let tol = 64. * CU * mag * cond * amp * amp * amp * amp;
            let mut worst: f64 = 0.;
            for q in [a, b, c, d] {
                worst = worst.max((s.center.distance(q) - s.radius).abs());
            }
            rep.max("c19.sphere4_res_over_tol", worst / tol);
            if !(worst <= tol) {
                rep.violations.push(viol(prop, "c19.sphere_four_points", format!("sphere through four points misses a point by {worst:e} (tol {tol:e}, condition {cond:e})"), g));
            }
        }
        // pts: centre, (radius, 0, 0), x
        "extend" => {
            let s0 = Sphere::new(p[0], p[1].x);
            let x = p[2];
            let inside0 = s0.contains(x);
            let s = s0.clone().extend(x);
            let tol = CU * (mag + s0.radius + x.distance(s0.center));
            let d = x.distance(s0.center);
            // whether the point is inside is decided here, not taken from `Sphere::contains` (whose answer is one of the
            // things under test): clearly inside / clearly outside by a relative margin of 1e-8, at any absolute scale
            let clearly_inside = s0.radius > 0. && d <= s0.radius * (1. - 1e-8);
            let clearly_outside = d >= s0.radius * (1. + 1e-8) && d > 0.;
            if (clearly_inside && !inside0) || (clearly_outside && inside0) {
                rep.violations.push(viol(prop, "c19.contains_wrong", format!("Sphere::contains is {inside0} for a point at distance {d:e} from the centre of a sphere of radius {:e}", s0.radius), g));
                return;
            }
            if !clearly_outside {
                if clearly_inside && (s.center != s0.center || s.radius != s0.radius) {
                    rep.violations.push(viol(prop, "c19.extend_changed_containing_sphere", format!("extend changed a sphere that already contains the point"), g));
                }
                return;
            }
            // smallest sphere containing the old sphere and x: radius (d + r) / 2, centre on the line centre -> x
            let want_r = 0.5 * (d + s0.radius);
            let want_c = s0.center + (x - s0.center) / d * (want_r - s0.radius);
            rep.max("c19.extend_err_over_tol", (s.radius - want_r).abs().max(s.center.distance(want_c)) / tol);
            if !((s.radius - want_r).abs() <= tol && s.center.distance(want_c) <= tol) {
                rep.violations.push(viol(prop, "c19.extend_not_smallest", format!("extend gives radius {:e} centre {:?}; the smallest sphere containing both has radius {want_r:e} centre {want_c:?}", s.radius, s.center), g));
                return;
            }
            // contains consistency: the new sphere contains x and the far point of the old sphere
            let far = s0.center - (x - s0.center) / d * s0.radius;
            if !(s.center.distance(x) <= s.radius + tol && s.center.distance(far) <= s.radius + tol) {
                rep.violations.push(viol(prop, "c19.extend_does_not_contain", format!("extended sphere does not contain the point or the old sphere"), g));
            }
            if s0.radius > 0. && !s.contains(x) {
                rep.violations.push(viol(prop, "c19.contains_inconsistent", format!("Sphere::contains is false for the point the sphere was just extended by"), g));
            }
        }
        other => eprintln!("unknown geo kind {other}"),
    }
}

fn gen_geo(r: &mut Rng) -> GeoCase {
    let (scale, off) = setting(r);
    let kinds = ["intersect_planes", "project_onto", "project_onto_intersection", "signed_volume_tet", "signed_area_tri", "sphere2", "sphere3", "sphere4", "extend", "intersects_sphere"];
    let kind = *r.pick(&kinds);
    let structured = r.below(4) == 0;
    let axis = |r: &mut Rng| *r.pick(&[DVec3::X, DVec3::Y, DVec3::Z, DVec3::NEG_X, DVec3::NEG_Y, DVec3::NEG_Z]);
    // a plane may be given with a normal of any length (Plane::new stores it as given)
    let nonunit = r.below(3) == 0;
    let nrm = |r: &mut Rng| {
        let n = if structured { axis(r) } else { unit(r) };
        if nonunit {
            n * *r.pick(&[0.1, 0.5, 2., 3., 10.])
        } else {
            n
        }
    };
    let pts = match kind {
        "intersect_planes" => {
            let mut v = vec![];
            // nearly dependent triples now and then (condition number recorded by the checker)
            let n0 = nrm(r);
            let n1 = nrm(r);
            let n2 = if r.below(6) == 0 { (n0.normalize() + n1.normalize() * r.range(0.5, 2.) + 1e-5 * unit(r)).normalize() } else { nrm(r) };
            for n in [n0, n1, n2] {
                v.push(n);
                v.push(point(r, scale, off));
            }
            v
        }
        "project_onto" => vec![nrm(r), point(r, scale, off), point(r, scale, off)],
        "intersects_sphere" => {
            // pts: n, p, centre, (radius, 0, 0): the centre at a distance of 0 .. 2 radii from the plane, every fourth one
            // within 1e-6 radii of being tangent (on either side)
            let n = nrm(r);
            let p0 = point(r, scale, off);
            let rad = scale * r.range(0.01, 1.);
            let dist = if r.below(4) == 0 { rad * (1. + r.range(-1e-6, 1e-6)) } else { rad * r.range(0., 2.) };
            let t = unit(r).cross(n).normalize_or_zero() * scale * r.range(0., 2.);
            let c = p0 + t + n.normalize() * dist * if r.bool() { 1. } else { -1. };
            vec![n, p0, c, DVec3::new(rad, 0., 0.)]
        }
        "project_onto_intersection" => {
            let n1 = nrm(r);
            // every third pair is nearly parallel (two faces of a cell whose neighbours are a close pair of generators)
            let n2 = if r.below(3) == 0 {
                let eps = *r.pick(&[1e-2, 1e-3, 1e-4, 1e-5, 3e-6]);
                let len = if nonunit { *r.pick(&[0.1, 0.5, 2., 3., 10.]) } else { 1. };
                (n1.normalize() + eps * unit(r)).normalize() * len
            } else {
                nrm(r)
            };
            vec![n1, point(r, scale, off), n2, point(r, scale, off), point(r, scale, off)]
        }
        "signed_volume_tet" | "signed_area_tri" | "sphere4" => {
            if structured {
                // small integer coordinates: the canonical frames of the documentation among them
                (0..4).map(|_| off + scale * DVec3::new(r.irange(-3, 3) as f64, r.irange(-3, 3) as f64, r.irange(-3, 3) as f64)).collect()
            } else if r.below(5) == 0 {
                // flat tetrahedra / apex close to the plane of the base (thin slivers, huge but decidable circumspheres)
                let (a, b, c) = (point(r, scale, off), point(r, scale, off), point(r, scale, off));
                let n = (b - a).cross(c - a);
                let ext = (b - a).length().max((c - a).length());
                let h = *r.pick(&[1e-2, 1e-3, 1e-4, 3e-5, 1e-5, 3e-6]);
                let d = a + r.range(-0.2, 1.2) * (b - a) + r.range(-0.2, 1.2) * (c - a) + h * ext * n / n.length().max(1e-300) * if r.bool() { 1. } else { -1. };
                let mut v = vec![a, b, c, d];
                let k = r.below(4);
                v.rotate_left(k);
                v
            } else {
                (0..4).map(|_| point(r, scale, off)).collect()
            }
        }
        "sphere2" => vec![point(r, scale, off), point(r, scale, off)],
        "sphere3" => {
            let (a, b) = (point(r, scale, off), point(r, scale, off));
            if r.below(4) == 0 {
                // thin triangles: the third point close to the line through the other two (huge but decidable circumradius)
                let h = *r.pick(&[1e-2, 1e-3, 1e-4, 3e-5, 1e-5, 3e-6]);
                let t = r.range(-0.5, 1.5);
                let d = b - a;
                let mut perp = d.cross(unit(r));
                if perp.length() < 1e-3 * d.length() {
                    perp = d.cross(DVec3::X) + d.cross(DVec3::Y);
                }
                let c = a + t * d + h * d.length() * perp / perp.length().max(1e-300);
                let mut v = vec![a, b, c];
                let k = r.below(3);
                v.rotate_left(k);
                v
            } else {
                vec![a, b, point(r, scale, off)]
            }
        }
        _ => {
            let c = point(r, scale, off);
            let rad = if r.below(8) == 0 { 0. } else { scale * r.f() };
            let x = c + unit(r) * scale * r.range(0., 3.);
            vec![c, DVec3::new(rad, 0., 0.), x]
        }
    };
    GeoCase {
        kind: kind.to_string(),
        pts,
    }
}

pub fn c19(a: &Args, rep: &mut Report) {
    rep.rule = "cases = argument tuples of the exported geometry helpers (intersect_planes, Plane::project_onto, Plane::project_onto_intersection, signed_volume_tet, signed_area_tri, Sphere::from_two/three/four_points, Sphere::extend/contains): random and structured (axis aligned, small integers, nearly dependent, large offset, scales 1e-6..1e6); distinct = distinct argument tuple hash; non-trivial = the arguments were well enough conditioned for the defining equations to be decided (ill-conditioned ones are counted separately and carry no verdict)".into();
    rep.assumptions = vec!["residual tolerances 256 u x scale x condition number".into()];
    let n = ncases(a, 20_000_000, 200_000_000);
    let nw = n_workers() as u64;
    let hashes = std::sync::Mutex::new(std::collections::HashSet::<u64>::new());
    run_parallel(rep, nw, budget(a, 100., 600.), |wk, rep| {
        let mut r = Rng::stream("C19", &[a.seed, wk]);
        let mut local = std::collections::HashSet::new();
        for k in 0..n / nw {
            let g = gen_geo(&mut r);
            let before = rep.counters.get("ill_conditioned_arguments").copied().unwrap_or(0);
            check_geo("C19", &g, rep);
            rep.evaluations += 1;
            let ill = rep.counters.get("ill_conditioned_arguments").copied().unwrap_or(0) > before;
            if !ill && local.len() < 500_000 {
                let mut d = Digest::new();
                d.str(&g.kind);
                for p in &g.pts {
                    d.v3(*p);
                }
                local.insert(d.0);
            }
            if k < 2 {
                rep.sample(g.json());
            }
        }
        hashes.lock().unwrap().extend(local);
    });
    rep.nontrivial.extend(hashes.into_inner().unwrap());
    let ill = rep.counters.get("ill_conditioned_arguments").copied().unwrap_or(0);
    rep.inconclusive = ill;
    if ill > 0 {
        rep.inconclusive_notes.push(format!("{ill} argument tuples with condition number above the decidable range (counted, no verdict)"));
    }
}

pub fn replay_c19(v: &Value, rep: &mut Report) -> bool {
    let Some(g) = GeoCase::from(&v["detail"]["geo"]) else { return false };
    check_geo("C19", &g, rep);
    true
}

// ------------------------------------------------------------------------------------------------
// C20

#[derive(Clone, Debug)]
pub struct AuxCase {
    pub kind: String,
    pub anchor: DVec3,
    pub width: DVec3,
    pub max_cell_width: f64,
    pub k: usize,
    pub pts: Vec<DVec3>,
    pub radii: Vec<f64>,
}

impl AuxCase {
    fn json(&self) -> Value {
        json!({"kind": self.kind, "anchor": vj(self.anchor), "width": vj(self.width), "max_cell_width": format!("{:016x}", self.max_cell_width.to_bits()), "k": self.k,
            "pts": self.pts.iter().map(|p| vj(*p)).collect::<Vec<_>>(), "radii": self.radii.iter().map(|x| format!("{:016x}", x.to_bits())).collect::<Vec<_>>(),
            "readable": {"anchor": [self.anchor.x, self.anchor.y, self.anchor.z], "width": [self.width.x, self.width.y, self.width.z], "max_cell_width": self.max_cell_width, "n": self.pts.len()}})
    }
    fn from(v: &Value) -> Option<AuxCase> {
        let h = |s: &Value| f64::from_bits(u64::from_str_radix(s.as_str().unwrap(), 16).unwrap());
        Some(AuxCase {
            kind: v["kind"].as_str()?.to_string(),
            anchor: jv(&v["anchor"]),
            width: jv(&v["width"]),
            max_cell_width: h(&v["max_cell_width"]),
            k: v["k"].as_u64()? as usize,
            pts: v["pts"].as_array()?.iter().map(jv).collect(),
            radii: v["radii"].as_array()?.iter().map(h).collect(),
        })
    }
}

fn aviol(prop: &str, mon: &str, what: String, c: &AuxCase) -> Violation {
    Violation::new(prop, mon, what, None, json!({"aux": c.json()}))
}

// own circumsphere formulas (independent of the library)
fn ball2(a: DVec3, b: DVec3) -> (DVec3, f64) {
    (0.5 * (a + b), 0.5 * a.distance(b))
}
fn ball3(a: DVec3, b: DVec3, c: DVec3) -> Option<(DVec3, f64)> {
    let (u, v) = (b - a, c - a);
    let w = u.cross(v);
    let w2 = w.length_squared();
    if w2 <= 1e-24 * u.length_squared() * v.length_squared() {
        return None;
    }
    let o = (u.length_squared() * v.cross(w) + v.length_squared() * w.cross(u)) / (2. * w2);
    Some((a + o, o.length()))
}
fn ball4(a: DVec3, b: DVec3, c: DVec3, d: DVec3) -> Option<(DVec3, f64)> {
    let (u, v, w) = (b - a, c - a, d - a);
    let det = u.dot(v.cross(w));
    if det.abs() <= 1e-12 * u.length() * v.length() * w.length() {
        return None;
    }
    let o = (u.length_squared() * v.cross(w) + v.length_squared() * w.cross(u) + w.length_squared() * u.cross(v)) / (2. * det);
    Some((a + o, o.length()))
}

/// brute-force minimal enclosing ball radius: all support sets of 2, 3, 4 points
fn min_ball_radius(p: &[DVec3]) -> f64 {
    let n = p.len();
    let scale = p.iter().fold(0.0f64, |m, q| m.max(q.distance(p[0]))).max(1e-300);
    let contains = |c: DVec3, r: f64| p.iter().all(|q| q.distance(c) <= r + 1e-9 * scale);
    let mut best = f64::INFINITY;
    for i in 0..n {
        for j in i + 1..n {
            let (c, r) = ball2(p[i], p[j]);
            if r < best && contains(c, r) {
                best = r;
            }
            for k in j + 1..n {
                if let Some((c, r)) = ball3(p[i], p[j], p[k]) {
                    if r < best && contains(c, r) {
                        best = r;
                    }
                }
                for l in k + 1..n {
                    if let Some((c, r)) = ball4(p[i], p[j], p[k], p[l]) {
                        if r < best && contains(c, r) {
                            best = r;
                        }
                    }
                }
            }
        }
    }
    best
}

pub fn check_aux(prop: &str, c: &AuxCase, rep: &mut Report) {
    rep.count(&format!("evaluations.{}", c.kind), 1);
    match c.kind.as_str() {
        "knn" => {
            let n = c.pts.len();
            let nn = match guarded(|| verif::knn(c.anchor, c.width, c.max_cell_width, &c.pts, c.k)) {
                Ok(x) => x,
                Err(e) => {
                    rep.violations.push(aviol(prop, "c20.knn_panic", format!("Space::knn panicked for {n} particles inside the half-open box (k = {}, box {:?}, cell width {:e}): {} at {}:{}", c.k, c.width, c.max_cell_width, e.message, e.file, e.line), c).with_signature(&format!("c20.knn_panic:{}", e.signature())));
                    return;
                }
            };
            if nn.len() != n {
                rep.violations.push(aviol(prop, "c20.knn_rows", format!("knn returned {} rows for {n} particles", nn.len()), c));
                return;
            }
            // every row for ordinary sizes; 300 seeded rows for the large sets (brute force is O(n log n) per row)
            let rows: Vec<usize> = if n <= 600 {
                (0..n).collect()
            } else {
                let mut r = Rng::stream("C20rows", &[n as u64, c.k as u64]);
                (0..300).map(|_| r.below(n)).collect()
            };
            for i in rows {
                let mut d: Vec<f64> = (0..n).filter(|&j| j != i).map(|j| c.pts[i].distance_squared(c.pts[j])).collect();
                d.sort_by(|a, b| a.partial_cmp(b).unwrap());
                let row = &nn[i];
                rep.count("knn_rows_checked", 1);
                if row.len() != c.k {
                    rep.violations.push(aviol(prop, "c20.knn_row_length", format!("row {i} has {} entries for k = {}", row.len(), c.k), c));
                    return;
                }
                let mut seen = std::collections::HashSet::new();
                for (q, &j) in row.iter().enumerate() {
                    if j >= n || j == i || !seen.insert(j) {
                        rep.violations.push(aviol(prop, "c20.knn_self_or_duplicate", format!("row {i}: entry {q} = {j} is the particle itself, a duplicate or out of range"), c));
                        return;
                    }
                    let dj = c.pts[i].distance_squared(c.pts[j]);
                    let tol = 8. * U * d[q].max(dj);
                    if !((dj - d[q]).abs() <= tol) {
                        rep.violations.push(aviol(prop, "c20.knn_wrong_neighbour", format!("particle {i}: neighbour #{q} is particle {j} at squared distance {dj:e}, but the {q}-th smallest squared distance to another particle is {:e} (k = {}, box {:?}, cell width {:e})", d[q], c.k, c.width, c.max_cell_width), c));
                        return;
                    }
                }
            }
        }
        "welzl" | "epos6" => {
            let n = c.pts.len();
            let s = match guarded(|| if c.kind == "welzl" { verif::welzl(&c.pts) } else { verif::epos6_points(&c.pts) }) {
                Ok(s) => s,
                Err(e) => {
                    rep.violations.push(aviol(prop, "c20.bounding_sphere_panic", format!("{}::bounding_sphere panicked on {n} points: {}", c.kind, e.message), c));
                    return;
                }
            };
            let scale = c.pts.iter().fold(0.0f64, |m, q| m.max(q.distance(c.pts[0]))).max(c.pts[0].abs().max_element() * 1e-6).max(1e-300);
            let mut worst = f64::NEG_INFINITY;
            for q in &c.pts {
                worst = worst.max(q.distance(s.center) - s.radius);
            }
            rep.count("bounding_spheres_checked", 1);
            rep.max("c20.containment_excess_over_scale", worst / scale);
            // the solvers work on absolute coordinates: allow for the amplification of rounding by (|p| / extent)^2
            let amp = 1. + (c.pts[0].abs().max_element() / scale).powi(2);
            if !(worst <= 1e-9 * scale * amp) || !s.radius.is_finite() {
                let mon = if n == 1 { "c20.single_point_not_contained" } else { "c20.point_not_contained" };
                rep.violations.push(aviol(prop, mon, format!("{}::bounding_sphere of {n} points (centre {:?}, radius {:e}) leaves a point {worst:e} outside", c.kind, s.center, s.radius), c));
                return;
            }
            if c.kind == "welzl" && (2..=13).contains(&n) {
                let want = min_ball_radius(&c.pts);
                rep.count("welzl_minimality_checked", 1);
                rep.max("c20.welzl_radius_excess_over_scale", (s.radius - want) / scale);
                if !((s.radius - want).abs() <= 1e-7 * scale) {
                    rep.violations.push(aviol(prop, "c20.welzl_not_minimal", format!("Welzl::bounding_sphere of {n} points has radius {:e}, the minimal enclosing ball (brute force over all support sets) has radius {want:e}", s.radius), c));
                }
            }
        }
        "epos6_spheres" => {
            let sph: Vec<Sphere> = c.pts.iter().zip(&c.radii).map(|(p, r)| Sphere::new(*p, *r)).collect();
            let s = match guarded(|| verif::epos6_spheres(&sph)) {
                Ok(s) => s,
                Err(e) => {
                    rep.violations.push(aviol(prop, "c20.bounding_sphere_panic", format!("Epos6::bounding_sphere_of_spheres panicked on {} spheres: {}", sph.len(), e.message), c));
                    return;
                }
            };
            let scale = sph.iter().fold(0.0f64, |m, q| m.max(q.center.distance(sph[0].center) + q.radius)).max(1e-300);
            let mut worst = f64::NEG_INFINITY;
            for q in &sph {
                worst = worst.max(q.center.distance(s.center) + q.radius - s.radius);
            }
            rep.count("bounding_spheres_of_spheres_checked", 1);
            if !(worst <= 1e-9 * scale) {
                rep.violations.push(aviol(prop, "c20.sphere_not_contained", format!("Epos6::bounding_sphere_of_spheres (centre {:?}, radius {:e}) leaves a sphere {worst:e} outside", s.center, s.radius), c));
            }
        }
        other => eprintln!("unknown aux kind {other}"),
    }
}

fn gen_aux(r: &mut Rng, thorough: bool) -> AuxCase {
    let kind = *r.pick(&["knn", "knn", "welzl", "welzl", "epos6", "epos6_spheres"]);
    let scale = *r.pick(&[1., 1., 1e-3, 1e3, 1e-7, 1e6]);
    match kind {
        "knn" => {
            let asp = *r.pick(&[DVec3::ONE, DVec3::ONE, DVec3::new(1., 0.37, 2.9), DVec3::new(1., 20., 0.5), DVec3::new(3., 1., 1.), DVec3::new(1., 1., 7.)]);
            let width = asp * scale;
            let anchor = *r.pick(&[DVec3::ZERO, DVec3::new(-0.5, -0.5, -0.5), DVec3::new(3.3, -7.1, 11.9)]) * width;
            let n = *r.pick(if thorough { &[2usize, 3, 5, 17, 64, 200, 500][..] } else { &[2usize, 3, 5, 17, 64, 150][..] });
            let mut pts = vec![];
            let clustered = r.below(4) == 0;
            while pts.len() < n {
                let u = if clustered && pts.len() % 2 == 0 { DVec3::splat(0.3) + 0.05 * DVec3::new(r.f(), r.f(), r.f()) } else { DVec3::new(r.f(), r.f(), r.f()) };
                let p = anchor + u * width;
                // half-open box
                if (0..3).all(|k| p[k] >= anchor[k] && p[k] - anchor[k] < width[k]) && !pts.contains(&p) {
                    pts.push(p);
                }
            }
            // grid cell size: from one cell to about one particle per cell, also sparse grids
            let wmax = width.max_element();
            let per_axis = *r.pick(&[0.7, 1., 2., 3.5, 8., (n as f64).cbrt() * 1.3, (n as f64).cbrt() * 3.]);
            let max_cell_width = wmax / per_axis.max(0.7);
            let k = match r.below(5) {
                0 => 0,
                1 => n - 1,
                2 => 1,
                _ => r.below(n),
            };
            AuxCase {
                kind: kind.into(),
                anchor,
                width,
                max_cell_width,
                k,
                pts,
                radii: vec![],
            }
        }
        _ => {
            let off = *r.pick(&[DVec3::ZERO, DVec3::new(3.3, -7.1, 11.9), DVec3::new(-1., 2., 0.5)]) * scale;
            let n = if kind == "welzl" { 1 + r.below(13) } else { 1 + r.below(60) };
            let mode = r.below(4);
            let c0 = off;
            let pts: Vec<DVec3> = (0..n)
                .map(|_| match mode {
                    0 => c0 + scale * unit(r),                               // co-spherical
                    1 => c0 + scale * DVec3::new(r.range(-1., 1.), 0.3 * r.range(-1., 1.), 0.),          // coplanar
                    2 => c0 + scale * DVec3::new(r.range(-1., 1.), 0., 0.) * DVec3::new(1., 0., 0.) + scale * r.range(-1., 1.) * DVec3::new(0.5, 0.5, 0.25), // near a line
                    _ => c0 + scale * DVec3::new(r.range(-1., 1.), r.range(-1., 1.), r.range(-1., 1.)),
                })
                .collect();
            let radii = if kind == "epos6_spheres" {
                (0..n).map(|i| if i % 7 == 3 { 0. } else if i % 5 == 0 { 2. * scale * r.f() } else { 0.2 * scale * r.f() }).collect()
            } else {
                vec![]
            };
            AuxCase {
                kind: kind.into(),
                anchor: DVec3::ZERO,
                width: DVec3::ONE,
                max_cell_width: 1.,
                k: 0,
                pts,
                radii,
            }
        }
    }
}

pub fn c20(a: &Args, rep: &mut Report) {
    rep.rule = "cases = (a) particle sets in cubic and non-cubic boxes (aspect up to 1:20, anchors off the origin) x grid cell sizes from one cell to ~1 particle per cell and sparse grids x k in {0, 1, random, n-1}: every row of Space::knn against brute force (as distance sequences, so ties may come in any order); (b) point sets (random, co-spherical, coplanar, near-collinear, n = 1..60) for Welzl (minimality against a brute-force search over all support sets of 2-4 points for n <= 13) and Epos6 (containment); (c) sphere sets incl. nested and zero-radius spheres for Epos6::bounding_sphere_of_spheres; distinct = distinct case hash; non-trivial = at least 2 points".into();
    rep.assumptions = vec!["Welzl::bounding_sphere_of_spheres is unimplemented!() by declaration and is not exercised".into()];
    let thorough = a.tier == "thorough";
    let n = ncases(a, 30000, 600_000);
    let hashes = std::sync::Mutex::new(std::collections::HashSet::<u64>::new());
    run_parallel(rep, n, budget(a, 100., 900.), |k, rep| {
        let mut r = Rng::stream("C20", &[a.seed, k]);
        let c = gen_aux(&mut r, thorough);
        check_aux("C20", &c, rep);
        rep.evaluations += 1;
        if c.pts.len() >= 2 {
            let mut d = Digest::new();
            d.str(&c.kind);
            d.usize(c.k);
            d.f64(c.max_cell_width);
            for p in &c.pts {
                d.v3(*p);
            }
            hashes.lock().unwrap().insert(d.0);
        }
        if k < 3 {
            rep.sample(c.json()["readable"].clone());
        }
    });
    rep.nontrivial.extend(hashes.into_inner().unwrap());
    // large particle sets and large grids (up to millions of grid cells, most of them empty in the sparse ones)
    if a.leg.is_none() {
        // (particles, grid cells per longest axis, k)
        let big: &[(usize, f64, usize)] = if thorough {
            &[(20000, 100., 3), (3000, 150., 5), (50000, 40., 8), (100000, 160., 4), (10000, 220., 2), (200000, 60., 1)]
        } else {
            &[(20000, 100., 3), (3000, 150., 5), (50000, 40., 8)]
        };
        run_parallel(rep, big.len() as u64, budget(a, 200., 1200.), |k, rep| {
            let (n, per_axis, kk) = big[k as usize];
            let mut r = Rng::stream("C20big", &[a.seed, k]);
            // the sparse grids (more cells than particles) are cubic so that the cell count is per_axis^3 (3.4 - 10 million)
            let asp = if per_axis >= 150. { DVec3::ONE } else { *r.pick(&[DVec3::ONE, DVec3::new(1., 0.5, 0.25), DVec3::new(0.7, 1., 0.9)]) };
            let scale = *r.pick(&[1., 1e-3, 1e3]);
            let width = asp * scale;
            let anchor = *r.pick(&[DVec3::ZERO, DVec3::new(-0.5, -0.5, -0.5), DVec3::new(3.3, -7.1, 11.9)]) * width;
            let mut pts = Vec::with_capacity(n);
            while pts.len() < n {
                let p = anchor + DVec3::new(r.f(), r.f(), r.f()) * width;
                if (0..3).all(|q| p[q] >= anchor[q] && p[q] - anchor[q] < width[q]) {
                    pts.push(p);
                }
            }
            let c = AuxCase {
                kind: "knn".into(),
                anchor,
                width,
                max_cell_width: width.max_element() / per_axis,
                k: kk,
                pts,
                radii: vec![],
            };
            check_aux("C20", &c, rep);
            rep.evaluations += 1;
            rep.count("large_knn_inputs", 1);
            rep.max("largest_knn_grid_cells", (width / c.max_cell_width).ceil().to_array().iter().product::<f64>());
        });
    }
}

pub fn replay_c20(v: &Value, rep: &mut Report) -> bool {
    let Some(c) = AuxCase::from(&v["detail"]["aux"]) else { return false };
    check_aux("C20", &c, rep);
    true
}
