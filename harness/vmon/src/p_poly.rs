//! C15 (vertices and face polygons of a ConvexCell<WithFaces> form a valid convex polytope) and C18 (clipping is
//! independent of the vertex storage order).

use crate::common::*;
use crate::props::*;
use crate::Args;
use glam::DVec3;
use meshless_voronoi::integrals::{AreaIntegral, VolumeIntegral};
use meshless_voronoi::verif::{self, CellBuilder};
use meshless_voronoi::{ConvexCell, HalfSpace};
use serde_json::json;
use std::collections::{BTreeMap, BTreeSet};
use vcore::case::{gen_case, Case, GenOpts};
use vcore::report::{Report, Violation};
use vcore::rng::Rng;

fn s_l(c: &Case) -> f64 {
    c.lmax()
}

fn canon(d: [usize; 3]) -> [usize; 3] {
    let k = (0..3).min_by_key(|&i| d[i]).unwrap();
    [d[k], d[(k + 1) % 3], d[(k + 2) % 3]]
}

// ------------------------------------------------------------------------------------------------
// C15

fn walk_cell(prop: &str, c: &Case, i: usize, plain: &ConvexCell<WithoutFaces>, cell: &ConvexCell<WithFaces>, rep: &mut Report) {
    let s = scales(c);
    let t = cell_tol(plain, &s);
    let nv = cell.vertices.len();
    let nf = cell.face_count();
    let np = cell.clipping_planes.len();
    rep.count("cells_walked", 1);
    rep.count("vertices_walked", nv as u64);
    rep.count("faces_walked", nf as u64);
    rep.max("c15.max_faces_of_one_cell", nf as f64);
    rep.max("c15.max_vertices_of_one_cell", nv as f64);
    let mk = |mon: &str, what: String, extra: serde_json::Value| Violation::new(prop, mon, format!("cell {i}: {what}"), Some(c), json!({"cell": i, "extra": extra}));
    // map faces to clipping plane indices (the accessor returns a reference into the plane vector)
    let mut plane_of_face = vec![usize::MAX; nf];
    for f in 0..nf {
        let pl = cell.clipping_plane(f);
        if let Some(k) = (0..np).find(|&k| std::ptr::eq(pl, &cell.clipping_planes[k].plane)) {
            plane_of_face[f] = k;
        } else {
            rep.violations.push(mk("c15.face_plane_unknown", format!("clipping_plane({f}) is not one of the cell's clipping planes"), json!({})));
            return;
        }
        if cell.neighbour(f) != cell.clipping_planes[plane_of_face[f]].right_idx || cell.shift(f) != cell.clipping_planes[plane_of_face[f]].shift {
            rep.violations.push(mk("c15.accessor_mismatch", format!("neighbour({f}) / shift({f}) disagree with the half space of that face"), json!({})));
        }
    }
    // ---- vertices: on their three planes, inside every half space, in exactly three faces
    let slack = |k: usize| 4. * vertex_delta(plain, k.min(plain.vertices.len().saturating_sub(1)), &s) + K * s.u * s.m;
    let mut incidence = vec![0usize; nv];
    for f in 0..nf {
        for &v in cell.face_vertices(f) {
            if v >= nv {
                rep.violations.push(mk("c15.vertex_index_out_of_range", format!("face {f} lists vertex {v} >= {nv}"), json!({})));
                return;
            }
            incidence[v] += 1;
        }
    }
    for (k, v) in cell.vertices.iter().enumerate() {
        let sl = slack(k);
        for &p in &v.dual {
            let pl = &cell.clipping_planes[p].plane;
            let res = pl.n.dot(v.loc - pl.p).abs();
            rep.max("c15.vertex_plane_res_over_tol", res / sl);
            if !(res <= sl) && !t.ill {
                rep.violations.push(mk("c15.vertex_off_plane", format!("vertex {k} at {:?} is {res:e} off its plane {p} (tol {sl:e})", v.loc), json!({"vertex": k})));
                return;
            }
        }
        for (q, hs) in cell.clipping_planes.iter().enumerate() {
            let sd = hs.plane.n.dot(v.loc - hs.plane.p);
            if !(sd >= -sl) && !t.ill {
                rep.violations.push(mk("c15.vertex_outside_half_space", format!("vertex {k} at {:?} is {:e} outside half space {q} (tol {sl:e})", v.loc, -sd), json!({"vertex": k, "plane": q})));
                return;
            }
        }
        if incidence[k] != 3 {
            rep.violations.push(mk("c15.vertex_incidence", format!("vertex {k} (dual {:?}) belongs to {} faces instead of 3", v.dual, incidence[k]), json!({"vertex": k})));
            return;
        }
    }
    // ---- faces: simple planar convex polygons, counter-clockwise about the inward normal
    let areas = cell.compute_face_integrals::<(), AreaIntegral>(());
    if areas.len() != nf {
        rep.violations.push(mk("c15.face_integral_count", format!("{nf} faces but {} face integrals", areas.len()), json!({})));
        return;
    }
    let mut edges: BTreeMap<(usize, usize), usize> = BTreeMap::new();
    let mut nedges2 = 0usize;
    for f in 0..nf {
        let vs = cell.face_vertices(f);
        let p = plane_of_face[f];
        let n_in = cell.clipping_planes[p].plane.n;
        if vs.len() != cell.face_vertex_count(f) || vs.len() < 3 {
            rep.violations.push(mk("c15.face_vertex_count", format!("face {f}: {} vertices listed, face_vertex_count = {}", vs.len(), cell.face_vertex_count(f)), json!({"face": f})));
            return;
        }
        let set: BTreeSet<usize> = vs.iter().copied().collect();
        if set.len() != vs.len() {
            rep.violations.push(mk("c15.face_repeated_vertex", format!("face {f} lists a vertex twice: {vs:?}"), json!({"face": f})));
            return;
        }
        for &v in vs {
            if !cell.vertices[v].dual.contains(&p) {
                rep.violations.push(mk("c15.face_vertex_not_on_plane", format!("face {f} (plane {p}) lists vertex {v} whose dual {:?} does not contain that plane", cell.vertices[v].dual), json!({"face": f})));
                return;
            }
        }
        if areas[f].right() != cell.neighbour(f) || areas[f].shift() != cell.shift(f) {
            rep.violations.push(mk("c15.accessor_vs_integral", format!("face {f}: neighbour/shift accessors ({:?}, {:?}) disagree with the face integral ({:?}, {:?})", cell.neighbour(f), cell.shift(f), areas[f].right(), areas[f].shift()), json!({"face": f})));
        }
        let m = vs.len();
        nedges2 += m;
        let mut shoelace = DVec3::ZERO;
        let p0 = cell.vertices[vs[0]].loc;
        let mut diam: f64 = 0.;
        for k in 0..m {
            let (a, b, cc) = (cell.vertices[vs[k]].loc, cell.vertices[vs[(k + 1) % m]].loc, cell.vertices[vs[(k + 2) % m]].loc);
            *edges.entry((vs[k], vs[(k + 1) % m])).or_insert(0) += 1;
            shoelace += 0.5 * (a - p0).cross(b - p0);
            diam = diam.max(a.distance(p0));
            // convex corner, counter-clockwise about the inward normal
            let corner = (b - a).cross(cc - b).dot(n_in);
            let ctol = 8. * t.max_dv * ((b - a).length() + (cc - b).length()) + K * s.u * s.m * s.l;
            if !(corner >= -ctol) && !t.ill {
                rep.violations.push(mk("c15.face_not_convex_ccw", format!("face {f}: corner at vertex {} turns clockwise about the inward normal ((e1 x e2).n = {corner:e}, tol {ctol:e})", vs[(k + 1) % m]), json!({"face": f})));
                return;
            }
        }
        let area = shoelace.dot(n_in);
        let atol = t.tol_a;
        if !t.ill {
            if !(area >= -atol) {
                rep.violations.push(mk("c15.face_clockwise", format!("face {f}: polygon is clockwise about the inward normal (signed area {area:e})"), json!({"face": f})));
                return;
            }
            let ai = areas[f].integral().area;
            let gen_on_plane = n_in.dot(cell.loc - cell.clipping_planes[p].plane.p) == 0.;
            rep.max("c15.area_err_over_tol", if gen_on_plane { 0. } else { (area - ai).abs() / atol });
            rep.count("face_areas_compared", 1);
            if !((area - ai).abs() <= atol) && area.abs().max(ai.abs()) > s.athr {
                let mon = if gen_on_plane { "c15.face_area_generator_on_plane" } else { "c15.face_area_vs_integral" };
                rep.violations.push(mk(mon, format!("face {f} (towards {:?}): polygon area {area:e} but AreaIntegral {ai:e} (tol {atol:e}){}", cell.neighbour(f), if gen_on_plane { "; the generator lies exactly in this wall's plane" } else { "" }), json!({"face": f})));
            }
        }
    }
    // ---- closed surface: every directed edge once, its reverse once; Euler relation
    for (&(a, b), &cnt) in &edges {
        if cnt != 1 || edges.get(&(b, a)).copied().unwrap_or(0) != 1 {
            rep.violations.push(mk("c15.edge_not_shared_by_two_faces", format!("edge {a}->{b} occurs {cnt} times and its reverse {} times", edges.get(&(b, a)).copied().unwrap_or(0)), json!({"edge": [a, b]})));
            return;
        }
    }
    let ne = nedges2 / 2;
    if nv + nf != ne + 2 || nedges2 % 2 != 0 {
        rep.violations.push(mk("c15.euler", format!("V - E + F = {} - {} + {} != 2", nv, ne, nf), json!({})));
    }
}

pub fn one_c15(prop: &str, c: &Case, rep: &mut Report) {
    if c.dim != 3 {
        // requesting faces for 1D/2D cells must be rejected
        let r = guarded(|| build_integrator(c));
        let Ok(vi) = r else { return };
        if let Some(cell) = vi.cells_iter().next() {
            let cl = cell.clone();
            rep.count("low_dimensional_rejections_checked", 1);
            if guarded(move || {
                let wf = cl.with_faces();
                wf.face_count()
            })
            .is_ok()
            {
                rep.violations.push(Violation::new(prop, "c15.faces_for_low_dimension_accepted", format!("ConvexCell::with_faces() on a {}D cell returned instead of rejecting the request", c.dim), Some(c), json!({})));
            }
            let v2 = vi.clone();
            if guarded(move || v2.with_faces().cells_iter().count()).is_ok() {
                rep.violations.push(Violation::new(prop, "c15.faces_for_low_dimension_accepted", format!("VoronoiIntegrator::with_faces() on a {}D tessellation returned instead of rejecting the request", c.dim), Some(c), json!({})));
            }
        }
        note_case(rep, c, true);
        return;
    }
    let r = guarded(|| {
        let vi = build_integrator(c);
        let vf = vi.clone().with_faces();
        (vi, vf)
    });
    let (vi, vf) = match r {
        Ok(x) => x,
        Err(p) => {
            rep.violations.push(panic_violation(prop, c, &p));
            note_case(rep, c, false);
            return;
        }
    };
    // interleaved objects: deriving the faces of a cell must not depend on what was done to ANOTHER cell before (scratch
    // buffers or cached face lists kept between calls): for every third input a second, unrelated tessellation with the same
    // number of generators in the same box is built, and between `discard_faces()` of its cell i and nothing else, the faces of
    // cell i of this input are derived - they must be those derived without the interleaving (bitwise)
    if c.hash() % 3 == 1 && c.n() >= 2 {
        let mut other = c.clone();
        let mut r = Rng::stream("C15interleave", &[c.hash()]);
        let (a, w) = (c.anchor, c.width);
        other.pts = (0..c.n()).map(|_| a + w * DVec3::new(r.f(), r.f(), r.f())).collect();
        other.mask = None;
        other.dedup();
        if other.n() == c.n() && other.validity().is_ok() {
            let res = guarded(|| {
                let vo = build_integrator(&other);
                let mut bad: Option<usize> = None;
                let mut n = 0u64;
                for i in 0..c.n() {
                    let (Some(mine), Some(theirs), Some(want)) = (vi.get_cell_at(i), vo.get_cell_at(i), vf.get_cell_at(i)) else { continue };
                    // other cell: with faces, then discarded (whatever it leaves behind belongs to ANOTHER cell with the same index)
                    let _ = theirs.clone().with_faces().discard_faces();
                    let got = mine.clone().with_faces();
                    n += 1;
                    let same = got.face_count() == want.face_count() && (0..want.face_count()).all(|f| got.face_vertices(f) == want.face_vertices(f) && got.neighbour(f) == want.neighbour(f) && got.shift(f) == want.shift(f));
                    if !same && bad.is_none() {
                        bad = Some(i);
                    }
                    // and the other way round
                    let _ = mine.clone().with_faces().discard_faces();
                    let fresh_other = theirs.clone().with_faces();
                    let _ = fresh_other.face_count();
                }
                (bad, n)
            });
            match res {
                Err(p) => rep.violations.push(panic_violation(prop, c, &p)),
                Ok((bad, n)) => {
                    rep.count("interleaved_face_derivations_compared", n);
                    if let Some(i) = bad {
                        rep.violations.push(Violation::new(prop, "c15.faces_depend_on_other_cell", format!("cell {i}: with_faces() right after with_faces().discard_faces() of cell {i} of ANOTHER tessellation gives other faces than with_faces() alone"), Some(c), json!({"cell": i})));
                    }
                }
            }
        }
    }
    let mut any = false;
    for i in 0..c.n() {
        let (Some(plain), Some(cell)) = (vi.get_cell_at(i), vf.get_cell_at(i)) else {
            if vi.get_cell_at(i).is_some() != vf.get_cell_at(i).is_some() {
                rep.violations.push(Violation::new(prop, "c15.cell_lost", format!("cell {i} exists in only one of the integrators"), Some(c), json!({"cell": i})));
            }
            continue;
        };
        any = true;
        match guarded(|| {
            let mut local = Report::new(prop, "x", 0);
            walk_cell(prop, c, i, plain, cell, &mut local);
            local
        }) {
            Ok(l) => rep.merge(l),
            Err(p) => rep.violations.push(panic_violation(prop, c, &p)),
        }
        // a clone of a cell with faces is itself a cell with faces: the unchecked accessors must find the same data
        if i % 4 == 2 {
            match guarded(|| {
                let cl = cell.clone();
                let mut local = Report::new(prop, "x", 0);
                let same = cl.face_count() == cell.face_count()
                    && (0..cell.face_count()).all(|f| cl.face_vertices(f) == cell.face_vertices(f) && cl.neighbour(f) == cell.neighbour(f) && cl.shift(f) == cell.shift(f) && cl.face_vertex_count(f) == cell.face_vertex_count(f));
                if !same {
                    local.violations.push(Violation::new(prop, "c15.clone_differs", format!("cell {i}: the clone of a cell with faces reports other faces than the original"), Some(c), json!({"cell": i})));
                }
                walk_cell(prop, c, i, plain, &cl, &mut local);
                local
            }) {
                Ok(l) => {
                    rep.merge(l);
                    rep.count("clones_walked", 1);
                }
                Err(p) => rep.violations.push(panic_violation(prop, c, &p)),
            }
        }
        // round trip: with_faces -> discard_faces -> with_faces is the identity
        if i % 4 == 0 {
            let r = guarded(|| {
                let back = cell.clone().discard_faces();
                let again = back.clone().with_faces();
                (back, again)
            });
            match r {
                Err(p) => rep.violations.push(panic_violation(prop, c, &p)),
                Ok((back, again)) => {
                    rep.count("round_trips_checked", 1);
                    let same_plain = back.vertices.len() == plain.vertices.len()
                        && back.vertices.iter().zip(&plain.vertices).all(|(a, b)| a.dual == b.dual && a.loc == b.loc)
                        && back.clipping_planes.len() == plain.clipping_planes.len()
                        && verif::safety_radius(&back) == verif::safety_radius(plain);
                    let same_faces = again.face_count() == cell.face_count() && (0..cell.face_count()).all(|f| again.face_vertices(f) == cell.face_vertices(f) && again.neighbour(f) == cell.neighbour(f) && again.shift(f) == cell.shift(f));
                    if !same_plain || !same_faces {
                        rep.violations.push(Violation::new(prop, "c15.round_trip", format!("cell {i}: with_faces -> discard_faces -> with_faces is not the identity (cell equal: {same_plain}, faces equal: {same_faces})"), Some(c), json!({"cell": i})));
                    }
                    // the discarded cell can be clipped again, with the same result as the original
                    let (a, w) = c.norm_box();
                    let cb = CellBuilder::new(&c.pts, a, w, dimn(3), c.periodic);
                    let mut r = Rng::stream("C15clip", &[c.hash(), i as u64]);
                    // a vertex that does not coincide with the generator (a generator on a box corner is a vertex)
                    let far: Vec<&meshless_voronoi::Vertex> = plain.vertices.iter().filter(|v| v.loc.distance(plain.loc) > 1e-6 * s_l(c)).collect();
                    if far.is_empty() {
                        continue;
                    }
                    let vtx = far[r.below(far.len())];
                    let n = (plain.loc - vtx.loc).normalize();
                    let p = 0.5 * (plain.loc + vtx.loc);
                    let res = guarded(|| {
                        let (mut x, mut y) = (plain.clone(), back.clone());
                        cb.clip(&mut x, HalfSpace::new(n, p, None, None));
                        cb.clip(&mut y, HalfSpace::new(n, p, None, None));
                        let cx: BTreeSet<[usize; 3]> = x.vertices.iter().map(|v| canon(v.dual)).collect();
                        let cy: BTreeSet<[usize; 3]> = y.vertices.iter().map(|v| canon(v.dual)).collect();
                        // faces derived again after the clip must describe the clipped polytope
                        let yf = y.clone().with_faces();
                        let mut local = Report::new(prop, "x", 0);
                        walk_cell(prop, c, i, &y, &yf, &mut local);
                        (cx == cy && cx.len() > 3, local)
                    });
                    let res = res.map(|(ok, local)| {
                        let n = local.violations.len();
                        rep.merge(local);
                        if n > 0 {
                            rep.count("walks_after_discard_and_clip_with_violations", 1);
                        }
                        ok
                    });
                    match res {
                        Ok(true) => rep.count("reclips_after_discard_checked", 1),
                        Ok(false) => rep.violations.push(Violation::new(prop, "c15.discard_faces_not_clippable", format!("cell {i}: clipping the cell after discard_faces gives a different polytope than clipping the original"), Some(c), json!({"cell": i}))),
                        Err(pn) => rep.violations.push(panic_violation(prop, c, &pn)),
                    }
                }
            }
        }
    }
    note_case(rep, c, any);
}

pub fn c15(a: &Args, rep: &mut Report) {
    rep.rule = "cases = seeded 3D inputs of the conditioned families (periodic or not, one third partial): every ConvexCell<WithFaces> is walked (vertices on their planes / inside all half spaces / in exactly three faces; faces simple, planar, convex, counter-clockwise, shoelace area = AreaIntegral; every edge shared by two faces in opposite direction; V - E + F = 2; accessors vs face integrals), every 4th cell goes through with_faces -> discard_faces -> with_faces and is clipped again; plus 1D/2D inputs on which with_faces must be rejected; distinct = distinct hash of (input, mask); non-trivial = at least one cell walked / one rejection checked".into();
    rep.assumptions = vec!["tolerance model of DESIGN 5.3".into()];
    if is_miri_leg(a) {
        // the unchecked Option accessors and the TypeId-guarded transmute under the UB interpreter
        for k in 0..(if a.tier == "thorough" { 2 } else { 1 }) {
            let mut c = miri_case(a.seed, k);
            if c.dim != 3 && k == 0 {
                c = miri_case(a.seed + 1, 6 - (a.seed + 1) % 6);
            }
            one_c15("C15", &c, rep);
            rep.count("miri_inputs_run", 1);
        }
        return;
    }
    let szs: Vec<usize> = if a.tier == "thorough" { vec![1, 2, 3, 4, 5, 8, 13, 27, 50, 100, 200, 400] } else { vec![1, 2, 3, 4, 5, 8, 13, 27, 50, 100] };
    let n = ncases(a, 12000, 100000);
    run_parallel(rep, n, budget(a, 100., 900.), |k, rep| {
        let o = GenOpts {
            sizes: &szs,
            dims: &[3, 3, 3, 3, 3, 3, 3, 2, 1],
            ..Default::default()
        };
        let mut c = gen_case("C15", &a.tier, a.seed, k, &o);
        with_random_mask("C15mask", a, k, &mut c, 3);
        one_c15("C15", &c, rep);
    });
    giant_cells(a, rep, "C15", &[3000, 12000], &[3000, 12000, 12000, 25000, 40000, 70000], |c, rep| one_c15("C15", c, rep));
    wedge_cells(a, rep, "C15", 3000, 40000, |c, rep| one_c15("C15", c, rep));
    drum_cells(a, rep, "C15", &DRUM_QUICK, &DRUM_THOROUGH, |c, rep| one_c15("C15", c, rep));
}

// ------------------------------------------------------------------------------------------------
// C18

fn closed(cell: &ConvexCell<WithoutFaces>) -> bool {
    // every ordered plane pair (a, b) consecutive in a vertex' cyclic dual is matched by (b, a) in exactly one other vertex
    let mut pairs: BTreeMap<(usize, usize), usize> = BTreeMap::new();
    for v in &cell.vertices {
        for k in 0..3 {
            *pairs.entry((v.dual[k], v.dual[(k + 1) % 3])).or_insert(0) += 1;
        }
    }
    pairs.iter().all(|(&(a, b), &n)| n == 1 && pairs.get(&(b, a)) == Some(&1))
}

fn volume(cell: &ConvexCell<WithoutFaces>) -> f64 {
    cell.compute_cell_integral::<(), VolumeIntegral>(()).volume
}

pub fn one_c18(prop: &str, c: &Case, rep: &mut Report) {
    if c.dim < 2 {
        return;
    }
    let (a, w) = c.norm_box();
    let n = c.n();
    let s = scales(c);
    let cb = CellBuilder::new(&c.pts, a, w, dimn(c.dim), c.periodic);
    let mut r = Rng::stream("C18", &[c.hash()]);
    let ncell = 3.min(n);
    let mut nontrivial = false;
    for t in 0..ncell {
        // the centre of a star (generator 0) is the cell with the many planes: always replay it
        let i = if t == 0 && (c.family == "star" || c.family == "drum") { 0 } else { r.below(n) };
        let seq = match guarded(|| verif::nn_sequence(&c.pts, i, w, dimn(c.dim), c.periodic, 40000)) {
            Ok(s) => s,
            Err(p) => {
                rep.violations.push(panic_violation(prop, c, &p));
                continue;
            }
        };
        let mut cell = cb.init_cell(i);
        let g = cb.generator_loc(i);
        for (step, (j, shift)) in seq.iter().enumerate().skip(1) {
            let h = cb.generator_loc(*j) + shift.unwrap_or(DVec3::ZERO);
            let dx = g - h;
            let dist = dx.length();
            if !(dist > 0.) || verif::safety_radius(&cell) < dist {
                break;
            }
            let hs = HalfSpace::new(dx / dist, 0.5 * (g + h), Some(*j), *shift);
            let before = cell.clone();
            // interleaving: now and then another cell is created (and clipped once) on this thread between two clips of the
            // replayed one - scratch state of the clip primitive must belong to the cell, not to the thread
            if step % 3 == 1 && n >= 2 {
                // (a stream of its own: the permutations of the variants below stay those of the earlier sessions, which the
                // witnesses findings/F5-C18-*.json depend on)
                let o = (i + 1 + Rng::stream("C18other", &[c.hash(), step as u64]).below(n - 1)) % n;
                let _ = guarded(|| {
                    let mut other = cb.init_cell(o);
                    let go = cb.generator_loc(o);
                    let d = go - g;
                    if d.length() > 0. {
                        cb.clip(&mut other, HalfSpace::new(d / d.length(), 0.5 * (g + go), Some(i), None));
                    }
                });
                rep.count("other_cells_created_between_clips", 1);
            }
            if let Err(p) = guarded(|| cb.clip(&mut cell, hs.clone())) {
                rep.violations.push(panic_violation(prop, c, &p));
                break;
            }
            rep.count("clips_replayed", 1);
            if cell.clipping_planes.len() == before.clipping_planes.len() {
                continue; // nothing removed
            }
            let after: BTreeSet<[usize; 3]> = cell.vertices.iter().map(|v| canon(v.dual)).collect();
            let removed: Vec<usize> = (0..before.vertices.len()).filter(|&k| !after.contains(&canon(before.vertices[k].dual))).collect();
            let kept: Vec<usize> = (0..before.vertices.len()).filter(|&k| after.contains(&canon(before.vertices[k].dual))).collect();
            let nr = removed.len();
            rep.max("c18.largest_removed_set", nr as f64);
            if !closed(&cell) {
                rep.violations.push(Violation::new(prop, "c18.result_not_closed", format!("cell {i}, clip {step} (neighbour {j}): the clipped cell is not a closed polytope with three planes per vertex"), Some(c), json!({"cell": i, "step": step})));
                break;
            }
            let v0 = volume(&cell);
            // variants: orders of the removed set (placed at the front), full shuffles, dual rotations
            let mut variants: Vec<(Vec<usize>, u8)> = vec![];
            if nr >= 2 && nr <= 5 {
                let mut perm: Vec<usize> = removed.clone();
                // all permutations (Heap's algorithm, iterative)
                let mut cst = vec![0usize; nr];
                let mut k = 0;
                let mut push = |p: &Vec<usize>, variants: &mut Vec<(Vec<usize>, u8)>, r: &mut Rng| {
                    let mut order = p.clone();
                    let mut rest = kept.clone();
                    if r.bool() {
                        r.shuffle(&mut rest);
                    }
                    order.extend(rest);
                    variants.push((order, (r.below(4)) as u8));
                };
                push(&perm, &mut variants, &mut r);
                while k < nr {
                    if cst[k] < k {
                        if k % 2 == 0 {
                            perm.swap(0, k);
                        } else {
                            perm.swap(cst[k], k);
                        }
                        push(&perm, &mut variants, &mut r);
                        cst[k] += 1;
                        k = 0;
                    } else {
                        cst[k] = 0;
                        k += 1;
                    }
                }
                rep.count("removed_sets_enumerated_completely", 1);
            }
            for q in 0..(if nr > 5 { 40 } else { 8 }) {
                let mut order: Vec<usize> = (0..before.vertices.len()).collect();
                r.shuffle(&mut order);
                variants.push((order, (q % 4) as u8));
            }
            for (order, rot) in variants {
                let mut var = before.clone();
                var.vertices = order.iter().map(|&k| before.vertices[k].clone()).collect();
                for (vi, v) in var.vertices.iter_mut().enumerate() {
                    let k = match rot {
                        0 => 0,
                        1 => 1,
                        2 => 2,
                        _ => (vi * 7 + order[vi]) % 3,
                    };
                    v.dual.rotate_left(k);
                }
                rep.count("permuted_clips", 1);
                // storage history: every fourth variant has been through with_faces() -> discard_faces() first
                let round_trip = rot == 2 && c.dim == 3;
                if round_trip {
                    rep.count("permuted_clips_after_face_round_trip", 1);
                }
                match guarded(|| {
                    if round_trip {
                        var = var.with_faces().discard_faces();
                    }
                    cb.clip(&mut var, hs.clone());
                    var
                }) {
                    Err(p) => {
                        rep.violations.push(Violation::new(prop, "c18.permuted_clip_panics", format!("cell {i}, clip {step} (neighbour {j}, {nr} vertices removed): with a permuted vertex array / rotated duals the clip panics at {}:{}: {}", p.file, p.line, p.message), Some(c), json!({"cell": i, "step": step, "order": order, "rotation": rot})).with_signature(&format!("c18.permuted_clip_panics:{}", p.signature())));
                        break;
                    }
                    Ok(var) => {
                        let got: BTreeSet<[usize; 3]> = var.vertices.iter().map(|v| canon(v.dual)).collect();
                        if got != after || var.vertices.len() != cell.vertices.len() {
                            rep.violations.push(Violation::new(prop, "c18.different_polytope", format!("cell {i}, clip {step} (neighbour {j}, {nr} vertices removed): a permuted vertex array / rotated duals gives a different set of vertices ({} vs {})", var.vertices.len(), cell.vertices.len()), Some(c), json!({"cell": i, "step": step, "order": order, "rotation": rot})));
                            break;
                        }
                        let v1 = volume(&var);
                        let vt = K * s.u * (1. + s.m / s.l) * (3. * s.l).powi(3);
                        if !((v1 - v0).abs() <= vt) {
                            rep.violations.push(Violation::new(prop, "c18.different_volume", format!("cell {i}, clip {step}: volume {v1:e} after a permuted clip vs {v0:e}"), Some(c), json!({"cell": i, "step": step})));
                            break;
                        }
                        if !closed(&var) {
                            rep.violations.push(Violation::new(prop, "c18.result_not_closed", format!("cell {i}, clip {step}: permuted clip result is not closed"), Some(c), json!({"cell": i, "step": step})));
                            break;
                        }
                    }
                }
            }
            if nr >= 2 {
                nontrivial = true;
            }
        }
        // the replayed construction must equal the production builder's cell
        if let Ok(prod) = guarded(|| cb.build_cell(i)) {
            let x: BTreeSet<[usize; 3]> = prod.vertices.iter().map(|v| canon(v.dual)).collect();
            let y: BTreeSet<[usize; 3]> = cell.vertices.iter().map(|v| canon(v.dual)).collect();
            rep.count("replays_compared_with_production_build", 1);
            if x != y {
                rep.inconclusive(format!("replayed clip sequence of cell {i} of {} differs from ConvexCell::build (harness replay is out of sync)", c.origin));
            }
        }
    }
    note_case(rep, c, nontrivial);
}

/// Long clip histories of ONE cell: a corner of a box cell is shaved tens of thousands of times (every clip removes the three
/// vertices of the previous cut and creates three), and at chosen history lengths - around 2^8, 2^15, 2^16, 2^17 effective
/// clips - a clone is clipped by probe planes that touch planes never clipped before (an opposite corner, an edge of two
/// untouched walls, a cut through the middle), in several storage orders and dual rotations. Each result must be a closed
/// polytope with the volume of the brute-force reference, and all variants must agree. Everything else in the harness clips a
/// cell a few hundred times at most (a cell of a tessellation lives for one construction).
fn c18_history(prop: &str, seed: u64, k: u64, nclips: usize, rep: &mut Report) {
    let mut r = Rng::stream("C18history", &[seed, k]);
    let l = *r.pick(&[1., 1., 1e-3, 1e3]);
    let anchor = DVec3::from_array(*r.pick(&[[0., 0., 0.], [-0.5, -0.5, -0.5], [3.3, -7.1, 11.9]])) * l;
    let width = DVec3::splat(l);
    let g = anchor + width * (DVec3::splat(0.5) + 0.1 * DVec3::new(r.f() - 0.5, r.f() - 0.5, r.f() - 0.5));
    // a second generator far outside the region that is touched (its index is the `right_idx` of the artificial planes;
    // it only matters if a decision were a tie, which the generic offsets avoid)
    let pts = vec![g, anchor + width * DVec3::new(0.93, 0.07, 0.91)];
    let c = Case {
        family: "history".into(),
        dim: 3,
        periodic: false,
        anchor,
        width,
        pts: pts.clone(),
        mask: None,
        origin: format!("C18history/seed{seed}/case{k}/clips{nclips}"),
    };
    let cb = CellBuilder::new(&pts, anchor, width, dimn(3), false);
    let mut cell = cb.init_cell(0);
    let sgn = DVec3::new(if r.bool() { 1. } else { -1. }, if r.bool() { 1. } else { -1. }, if r.bool() { 1. } else { -1. });
    let corner = anchor + width * (DVec3::splat(0.5) + 0.5 * sgn);
    let inward = -sgn / 3f64.sqrt();
    let probes_at: Vec<usize> = vec![3, 100, 254, 255, 256, 257, 1000, 4095, 4096, 32766, 32767, 32768, 32769, 65533, 65534, 65535, 65536, 65537, 70000, 131070, 131071, 131072, 131073, 200000, 262143, 262144, 262145];
    let mut effective = 0usize;
    let (lo, hi) = (anchor, anchor + width);
    let mut last_planes: Vec<(DVec3, DVec3)> = vec![];
    let mut step = 0usize;
    while effective < nclips && step < 4 * nclips {
        step += 1;
        // depth of the cut grows from 1e-4 to 0.25 box widths, strictly increasing; a small random tilt varies which of the
        // previous vertices go
        let t = l * (1e-4 + 0.25 * (step as f64) / (nclips as f64 * 1.05));
        let tilt = DVec3::new(r.f() - 0.5, r.f() - 0.5, r.f() - 0.5) * 2e-6;
        let n = (inward + tilt).normalize();
        let p = corner + inward * t;
        let before = cell.vertices.len() + cell.clipping_planes.len();
        let planes_before = cell.clipping_planes.len();
        if let Err(pn) = guarded(|| cb.clip(&mut cell, HalfSpace::new(n, p, Some(1), None))) {
            rep.violations.push(Violation::new(prop, "c18.history_clip_panics", format!("clip {step} of a long history ({effective} effective clips before) panics at {}:{}: {}", pn.file, pn.line, pn.message), Some(&c), json!({"effective": effective, "step": step})).with_signature(&format!("c18.history_clip_panics:{}", pn.signature())));
            return;
        }
        let _ = before;
        if cell.clipping_planes.len() > planes_before {
            effective += 1;
            last_planes.push((n, p));
            if last_planes.len() > 6 {
                last_planes.remove(0);
            }
        } else {
            continue;
        }
        rep.count("history_clips", 1);
        if !probes_at.contains(&effective) {
            continue;
        }
        rep.count("history_probe_points", 1);
        rep.max("c18.longest_history_probed", effective as f64);
        // probe planes: (normal into the kept side, point)
        let opp = anchor + width * (DVec3::splat(0.5) - 0.5 * sgn);
        let mut e_dir = -sgn;
        e_dir.z = 0.;
        let mut edge_pt = opp;
        edge_pt.z = g.z;
        let mid_n = DVec3::new(r.gauss(), r.gauss(), r.gauss()).normalize();
        let probes: Vec<(DVec3, DVec3, &str)> = vec![
            ((sgn / 3f64.sqrt() + DVec3::new(0.013, -0.007, 0.003)).normalize(), opp + sgn * 0.05 * l, "opposite corner"),
            ((-e_dir.normalize() + DVec3::new(0.004, 0.009, 0.011)).normalize(), edge_pt - e_dir.normalize() * (-0.07 * l), "edge of two untouched walls"),
            (mid_n, g + mid_n * 0.01 * l, "through the middle"),
        ];
        for (pn_in, pp, what) in probes {
            // reference: the box, the last shaving planes (the earlier ones are redundant), the probe plane
            let mut rc = vcore::refcell::RCell::new_box(g, lo, hi);
            let eps = 64. * f64::EPSILON * (anchor.abs().max_element() + l);
            for (q, (sn, sp)) in last_planes.iter().enumerate() {
                rc.clip_plane(-*sn, *sp, vcore::refcell::Key::Gen(100 + q, [0, 0, 0]), eps);
            }
            rc.clip_plane(-pn_in, pp, vcore::refcell::Key::Gen(99, [0, 0, 0]), eps);
            let vref = rc.summary().volume;
            let mut canon0: Option<BTreeSet<[usize; 3]>> = None;
            for variant in 0..6usize {
                let mut var = cell.clone();
                if variant % 2 == 1 {
                    var.vertices.reverse();
                }
                let rot = variant / 2;
                for v in var.vertices.iter_mut() {
                    v.dual.rotate_left(rot);
                }
                rep.count("history_probe_clips", 1);
                match guarded(|| {
                    cb.clip(&mut var, HalfSpace::new(pn_in, pp, Some(1), None));
                    var
                }) {
                    Err(pn) => {
                        rep.violations.push(Violation::new(prop, "c18.history_probe_panics", format!("after {effective} effective clips of one cell, clipping a clone by a plane cutting the {what} (storage order {}, dual rotation {rot}) panics at {}:{}: {}", if variant % 2 == 1 { "reversed" } else { "as built" }, pn.file, pn.line, pn.message), Some(&c), json!({"effective": effective, "probe": what, "variant": variant})).with_signature(&format!("c18.history_probe_panics:{}", pn.signature())));
                        break;
                    }
                    Ok(var) => {
                        if !closed(&var) {
                            rep.violations.push(Violation::new(prop, "c18.history_not_closed", format!("after {effective} effective clips of one cell, the clip by a plane cutting the {what} leaves a polytope that is not closed"), Some(&c), json!({"effective": effective, "probe": what, "variant": variant})));
                            break;
                        }
                        let v = volume(&var);
                        let tol = 1e-12 * l * l * l * (1. + anchor.abs().max_element() / l);
                        rep.max("c18.history_dV_over_tol", (v - vref).abs() / tol);
                        if !((v - vref).abs() <= tol) {
                            rep.violations.push(Violation::new(prop, "c18.history_volume", format!("after {effective} effective clips of one cell, the clip by a plane cutting the {what} gives volume {v:e}, brute-force reference {vref:e}"), Some(&c), json!({"effective": effective, "probe": what, "variant": variant})));
                            break;
                        }
                        let cs: BTreeSet<[usize; 3]> = var.vertices.iter().map(|v| canon(v.dual)).collect();
                        match &canon0 {
                            None => canon0 = Some(cs),
                            Some(c0) => {
                                if *c0 != cs {
                                    rep.violations.push(Violation::new(prop, "c18.history_different_polytope", format!("after {effective} effective clips, storage order / dual rotation changes the result of the clip cutting the {what}"), Some(&c), json!({"effective": effective, "probe": what, "variant": variant})));
                                    break;
                                }
                            }
                        }
                    }
                }
            }
        }
    }
    rep.max("c18.longest_history", effective as f64);
    rep.evaluations += 1;
    rep.nontrivial.insert(c.hash() ^ (nclips as u64));
}

pub fn c18(a: &Args, rep: &mut Report) {
    rep.rule = "cases = seeded 3D inputs (uniform, exact lattices with large tie sets, clusters; periodic or not); for 3 cells per input the production clip sequence is replayed step by step with the real clip primitive; before every clip that removes vertices the vertex array is permuted (ALL orders of the removed set for <= 5 removed vertices, 8-40 random full permutations otherwise) and the plane triples rotated, and the canonical result / volume / closedness compared; distinct = distinct input hash; non-trivial = at least one clip removing >= 2 vertices was permuted".into();
    rep.assumptions = vec!["removed sets of more than 5 vertices are sampled, not enumerated".into()];
    let szs: Vec<usize> = if a.tier == "thorough" { vec![2, 3, 5, 8, 13, 27, 64, 125, 300, 1000] } else { vec![2, 3, 5, 8, 13, 27, 64, 125, 300] };
    let n = ncases(a, 8000, 60000);
    run_parallel(rep, n, budget(a, 100., 900.), |k, rep| {
        let o = GenOpts {
            sizes: &szs,
            dims: &[3, 3, 3, 2],
            families: &["uniform", "lattice", "blattice", "mildcluster", "lattice", "tiny", "clattice", "star", "star", "rows", "gradient", "coplanar"],
            ..Default::default()
        };
        let c = gen_case("C18", &a.tier, a.seed, k, &o);
        one_c18("C18", &c, rep);
    });
    // drums: one clip removes the m vertices of a whole end cap (sampled permutations of a removed set of m)
    drum_cells(a, rep, "C18", &DRUM_QUICK[..20], &DRUM_THOROUGH[..26], |c, rep| one_c18("C18", c, rep));
    // the fixed witnesses of finding F5 among the drum inputs (findings/F5-C18-*.json; known findings, matched by input hash +
    // signature): replayed in every run
    if a.leg.is_none() {
        let mut files: Vec<_> = std::fs::read_dir(a.verif_dir.join("findings")).map(|d| d.filter_map(|e| e.ok()).map(|e| e.path()).collect()).unwrap_or_default();
        files.retain(|p: &std::path::PathBuf| p.file_name().and_then(|n| n.to_str()).map_or(false, |n| n.starts_with("F5-C18-") && n.ends_with(".json")));
        files.sort();
        for f in files {
            let Ok(txt) = std::fs::read_to_string(&f) else { continue };
            let Ok(v) = serde_json::from_str::<serde_json::Value>(&txt) else { continue };
            let Some(cj) = v.get("case") else { continue };
            let mut c = Case::from_json(cj);
            c.origin = format!("findings/{}", f.file_name().unwrap().to_string_lossy());
            in_pool(|| one_c18("C18", &c, rep));
            rep.count("f5_witness_inputs", 1);
        }
    }
    // long histories of one cell
    if a.leg.is_none() {
        let lens: Vec<usize> = if a.tier == "thorough" { vec![70000, 70000, 140000, 140000, 270000, 270000, 70000, 140000] } else { vec![70000, 70000, 70000, 140000] };
        run_parallel(rep, lens.len() as u64, budget(a, 100., 900.), |k, rep| c18_history("C18", a.seed, k, lens[k as usize], rep));
    }
}
