//! In-situ monitors of the exact tie decisions (used by C05 and C10): every event logged by the `on_exact` hook is
//! re-evaluated by the independent integer oracle, the orientation precondition is checked and the decision is
//! compared with the (well separated) floating point geometry of the true positions.

use crate::common::*;
use glam::DVec3;
use meshless_voronoi::verif::{ExactEvent, Trace};
use serde_json::json;
use vcore::case::Case;
use vcore::report::{Report, Violation};
use vcore::wide;

/// Floating point in-sphere determinant of the true positions, in coordinates relative to `a` and scaled by 1/l.
/// Same sign convention as the library's exact predicate (columns b-a, c-a, d-a, v-a lifted).
pub fn float_in_sphere(f: &[DVec3; 5], l: f64) -> (f64, f64) {
    let q = |p: DVec3| (p - f[0]) / l;
    let lift = |p: DVec3| [p.x, p.y, p.z, p.length_squared()];
    let r = [lift(q(f[1])), lift(q(f[2])), lift(q(f[3])), lift(q(f[4]))];
    // orientation det[b-a, c-a, d-a]
    let o = det3f([[r[0][0], r[0][1], r[0][2]], [r[1][0], r[1][1], r[1][2]], [r[2][0], r[2][1], r[2][2]]]);
    // 4x4 determinant by expansion along the last row
    let mut det = 0.;
    for col in 0..4 {
        let mut m = [[0.; 3]; 3];
        for row in 0..3 {
            let mut mj = 0;
            for cc in 0..4 {
                if cc != col {
                    m[row][mj] = r[row][cc];
                    mj += 1;
                }
            }
        }
        let term = r[3][col] * det3f(m);
        // sign (-1)^(3+col)
        if (3 + col) % 2 == 0 {
            det += term;
        } else {
            det -= term;
        }
    }
    (o, det)
}

fn det3f(m: [[f64; 3]; 3]) -> f64 {
    m[0][0] * (m[1][1] * m[2][2] - m[1][2] * m[2][1]) - m[0][1] * (m[1][0] * m[2][2] - m[1][2] * m[2][0]) + m[0][2] * (m[1][0] * m[2][1] - m[1][1] * m[2][0])
}

/// Check every logged exact decision. Returns the number of events checked.
pub fn check_exact_log(prop: &str, c: &Case, trace: &Trace, rep: &mut Report) -> u64 {
    let s = scales(c);
    let mut nchk = 0;
    // the position -> grid map of this input, through the hook wrapper of SimulationBoundary::{cuboid, iloc}
    let (an, wn) = c.norm_box();
    let grid = meshless_voronoi::verif::Grid::cuboid(an, wn, c.periodic, dimn(c.dim));
    let mut reported = false;
    for e in &trace.exact {
        nchk += 1;
        check_event(prop, c, e, s.l, rep);
        // the five grid points handed to the predicate are the images of the five positions they stand for (generator, the
        // three positions behind the planes of the vertex, the position behind the clipping plane)
        if !reported {
            for k in 0..5 {
                let want = grid.iloc(e.fpts[k]);
                if want != e.ipts[k] {
                    rep.violations.push(Violation::new(
                        prop,
                        "exact.grid_point_is_not_the_image_of_its_position",
                        format!("cell {}: point {k} of an exact decision is the grid point {:?}, but the position it stands for ({:?}) maps to {:?}", e.cell, e.ipts[k], e.fpts[k], want),
                        Some(c),
                        json!({"cell": e.cell, "tuple": e.ipts, "fpts": e.fpts.iter().map(|v| v3j(*v)).collect::<Vec<_>>(), "k": k}),
                    ));
                    reported = true;
                    break;
                }
            }
            rep.count("exact_grid_points_compared_with_their_positions", 5);
        }
    }
    rep.count("exact_decisions_total", trace.exact_count);
    rep.count("exact_decisions_checked_against_oracle", nchk);
    rep.count("exact_decisions_zero", trace.exact_zero_count);
    rep.count("iloc_calls", trace.iloc_count);
    if trace.iloc_out_of_domain_count > 0 {
        rep.violations.push(Violation::new(
            prop,
            "grid.out_of_domain",
            format!("{} of {} positions mapped to the integer grid were outside the domain [1,2); first scaled coordinate: {:?}", trace.iloc_out_of_domain_count, trace.iloc_count, trace.iloc_first_out_of_domain),
            Some(c),
            json!({"count": trace.iloc_out_of_domain_count}),
        ));
    }
    nchk
}

fn check_event(prop: &str, c: &Case, e: &ExactEvent, l: f64, rep: &mut Report) {
    let p = &e.ipts;
    for q in p.iter() {
        for &x in q.iter() {
            if !(0..(1i64 << 52)).contains(&x) {
                rep.violations.push(Violation::new(prop, "grid.coordinate_out_of_range", format!("cell {}: integer grid coordinate {x} outside [0, 2^52)", e.cell), Some(c), json!({"cell": e.cell})));
                return;
            }
        }
    }
    let want = wide::in_sphere_sign(&p[0], &p[1], &p[2], &p[3], &p[4]);
    let got = if e.result < 0. {
        -1
    } else if e.result > 0. {
        1
    } else {
        0
    };
    if !(e.result == 0. || e.result == 1. || e.result == -1.) || want != got {
        rep.violations.push(Violation::new(prop, "exact.wrong_sign", format!("cell {}: exact predicate returned {} for a tuple whose determinant has sign {want}", e.cell, e.result), Some(c), json!({"cell": e.cell, "tuple": p, "result": e.result, "oracle": want})));
    }
    let o = wide::orient_sign(&p[0], &p[1], &p[2], &p[3]);
    match o {
        1 => rep.count("exact_positively_oriented", 1),
        0 => rep.count("exact_degenerate_orientation", 1),
        _ => {
            rep.violations.push(Violation::new(prop, "exact.negative_orientation", format!("cell {}: the tetrahedron (generator, three neighbours of a vertex) handed to the exact predicate is negatively oriented on the grid, so 'negative = remove' is wrong for it", e.cell), Some(c), json!({"cell": e.cell, "tuple": p})));
        }
    }
    // decision vs the clearly separated floating point geometry of the true positions
    let (of, df) = float_in_sphere(&e.fpts, l);
    let scale = {
        let q = |k: usize| ((e.fpts[k] - e.fpts[0]) / l).length().max(1e-300);
        // magnitude of the determinant terms
        q(1) * q(2) * q(3) * q(4) * (q(1) + q(2) + q(3) + q(4))
    };
    if of.abs() > 1e-6 * ((e.fpts[1] - e.fpts[0]).length() * (e.fpts[2] - e.fpts[0]).length() * (e.fpts[3] - e.fpts[0]).length() / (l * l * l)) && df.abs() > 1e-7 * scale {
        rep.count("exact_decisions_with_clear_float_geometry", 1);
        let fs = if df < 0. { -1 } else { 1 };
        if fs != got {
            rep.violations.push(Violation::new(
                prop,
                "exact.contradicts_true_geometry",
                format!("cell {}: the exact decision on the snapped grid points is {got}, but the true positions give a clearly separated in-sphere determinant {df:e} (orientation {of:e}): snapping changed the answer", e.cell),
                Some(c),
                json!({"cell": e.cell, "tuple": p, "float_det": df, "float_orient": of, "fpts": e.fpts.iter().map(|v| v3j(*v)).collect::<Vec<_>>()}),
            ));
        }
    }
}
