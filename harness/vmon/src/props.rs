//! Per-property workloads: which inputs are generated and which monitors run on them.

use crate::common::*;
use crate::geom;
use crate::Args;
use serde_json::json;
use std::path::Path;
use vcore::case::{gen_case, gen_mask, Case, GenOpts};
use vcore::report::{Report, Violation};
use vcore::rng::Rng;

pub fn ncases(a: &Args, quick: u64, thorough: u64) -> u64 {
    let base = if a.tier == "thorough" { thorough } else { quick };
    // sanitizer legs run the same monitors on a reduced number of cases (valgrind ~40x, ASan ~2x slower)
    let leg_factor = match a.leg.as_deref() {
        Some("valgrind") => 0.02,
        Some("asan") if a.tier == "thorough" => 0.1,
        _ => 1.,
    };
    ((base as f64) * a.scale * leg_factor).ceil().max(1.) as u64
}

pub fn is_miri_leg(a: &Args) -> bool {
    a.leg.as_deref().map_or(false, |l| l.starts_with("miri"))
}

/// Tiny inputs for the Miri legs (about 2 s per cell under the interpreter): exact lattices (ties -> exact predicate
/// and big integers), generators on walls, a periodic pair, a 2D lattice. `k` selects the input.
pub fn miri_case(seed: u64, k: u64) -> Case {
    use glam::DVec3;
    let mut r = Rng::stream("miri", &[seed, k]);
    let kind = (seed + k) % 6;
    let mk = |name: &str, dim: usize, periodic: bool, anchor: DVec3, width: DVec3, pts: Vec<DVec3>| Case {
        family: "miri".into(),
        dim,
        periodic,
        anchor,
        width,
        pts,
        mask: None,
        origin: format!("miri/{name}/seed{seed}/case{k}"),
    };
    let w = DVec3::new(1., 0.5 + r.f(), 1. + r.f());
    let a = DVec3::new(-0.5, 3., 0.25);
    let lat = |nx: usize, ny: usize, nz: usize, centred: bool| -> Vec<DVec3> {
        let mut v = vec![];
        for i in 0..nx {
            for j in 0..ny {
                for l in 0..nz {
                    let o = if centred { 0.5 } else { 0. };
                    let d = |q: usize, n: usize| if centred { (q as f64 + o) / n as f64 } else if n > 1 { q as f64 / (n - 1) as f64 } else { 0.5 };
                    v.push(a + w * DVec3::new(d(i, nx), d(j, ny), d(l, nz)));
                }
            }
        }
        v
    };
    match kind {
        0 => mk("lattice_2x2x2", 3, false, a, w, lat(2, 2, 2, true)),
        1 => mk("lattice_2x2x2_periodic", 3, true, a, w, lat(2, 2, 2, true)),
        2 => mk("corners_2x2x2", 3, false, a, w, lat(2, 2, 2, false)),
        3 => mk("lattice_3x3_2d", 2, r.bool(), a, w, lat(3, 3, 1, true)),
        4 => {
            let pts = (0..5).map(|_| a + w * DVec3::new(r.f(), r.f(), r.f())).collect();
            let mut c = mk("uniform_5", 3, r.bool(), a, w, pts);
            c.mask = Some(vec![true, false, true, true, false]);
            c
        }
        _ => mk("lattice_5_1d", 1, r.bool(), a, w, lat(5, 1, 1, true)),
    }
}

pub fn budget(a: &Args, quick: f64, thorough: f64) -> f64 {
    std::env::var("VERIF_BUDGET_S")
        .ok()
        .and_then(|s| s.parse().ok())
        .unwrap_or(if a.tier == "thorough" { thorough } else { quick })
}

pub fn sizes(a: &Args) -> Vec<usize> {
    if a.tier == "thorough" {
        vec![1, 2, 3, 4, 5, 8, 13, 27, 50, 100, 200, 400, 1000]
    } else {
        vcore::case::SIZES_QUICK.to_vec()
    }
}

/// Record a panic of the library on a valid input of a conditioned family as a violation.
pub fn panic_violation(prop: &str, c: &Case, p: &PanicInfo) -> Violation {
    Violation::new(
        prop,
        "totality.panic",
        format!("construction panicked at {}:{}: {}", p.file, p.line, p.message),
        Some(c),
        json!({"file": p.file, "line": p.line, "message": p.message}),
    )
    .with_signature(&p.signature())
}

/// Giant cells: one central generator inside a shell of thousands of others, only the centre (and two shell cells)
/// constructed. The central cell has about n faces, 2n vertices and 6n face-vertex connections - beyond any 8- or
/// 16-bit counter, deep boundary cycles, long face lists.
pub fn giant_cells(a: &Args, rep: &mut Report, label: &str, quick: &[usize], thorough: &[usize], f: impl Fn(&Case, &mut Report) + Sync) {
    if a.leg.as_deref().map_or(false, |l| l != "relcheck" && l != "norayon") {
        return;
    }
    let szs: &[usize] = if a.tier == "thorough" { thorough } else { quick };
    run_parallel(rep, szs.len() as u64, budget(a, 200., 1800.), |k, rep| {
        let n = szs[k as usize];
        let c = vcore::case::shell_case(label, &a.tier, a.seed, k, n);
        let before = rep.violations.len();
        f(&c, rep);
        rep.count("giant_cell_inputs", 1);
        rep.max("giant_cell_generators", c.n() as f64);
        let _ = before;
    });
}


/// Drum inputs (vcore::case::drum_case): a prism cell with m side faces whose end cap is cut off by ONE clip removing m vertices.
pub fn drum_cells(a: &Args, rep: &mut Report, label: &str, quick: &[usize], thorough: &[usize], f: impl Fn(&Case, &mut Report) + Sync) {
    if a.leg.as_deref().map_or(false, |l| l != "relcheck" && l != "norayon") {
        return;
    }
    let szs: &[usize] = if a.tier == "thorough" { thorough } else { quick };
    run_parallel(rep, szs.len() as u64, budget(a, 100., 900.), |k, rep| {
        let c = vcore::case::drum_case(label, &a.tier, a.seed, k, szs[k as usize]);
        f(&c, rep);
        rep.count("drum_inputs", 1);
        rep.max("drum_largest_ring", szs[k as usize] as f64);
    });
}

pub const DRUM_QUICK: [usize; 24] = [5, 8, 20, 40, 63, 64, 65, 66, 70, 80, 100, 127, 128, 129, 130, 150, 200, 255, 256, 257, 300, 400, 513, 700];
pub const DRUM_THOROUGH: [usize; 40] = [5, 8, 20, 40, 63, 64, 65, 66, 70, 80, 100, 127, 128, 129, 130, 150, 200, 255, 256, 257, 300, 400, 513, 700, 1000, 1025, 1500, 2000, 2049, 3000, 4097, 5000, 8000, 12000, 16385, 20000, 32769, 40000, 65537, 70000];

/// Wedge inputs (vcore::case::wedge_case): one pair of generators 1e-6 .. 1e-5 box widths apart among a few ordinary
/// ones in a cubic box: nearly parallel adjacent faces, thin wedges, badly conditioned (but decidable) vertices.
pub fn wedge_cells(a: &Args, rep: &mut Report, label: &str, quick: u64, thorough: u64, f: impl Fn(&Case, &mut Report) + Sync) {
    if a.leg.as_deref().map_or(false, |l| l != "relcheck" && l != "norayon") {
        return;
    }
    let n = ncases(a, quick, thorough);
    run_parallel(rep, n, budget(a, 100., 900.), |k, rep| {
        let c = vcore::case::wedge_case(label, &a.tier, a.seed, k);
        f(&c, rep);
        rep.count("wedge_inputs", 1);
    });
}

/// Zoom inputs (vcore::case::zoom_case, monitor p_zoom::one_zoom): compact groups with a spacing of 1e-8 .. 1e-4 box widths,
/// half of them straddling the periodic boundary; judged at the scale of the group.
pub fn zoom_cells(a: &Args, rep: &mut Report, label: &str, hostile: bool, quick: u64, thorough: u64, f: impl Fn(&Case, &mut Report) + Sync) {
    if a.leg.as_deref().map_or(false, |l| l != "relcheck" && l != "norayon") {
        return;
    }
    let n = ncases(a, quick, thorough);
    run_parallel(rep, n, budget(a, 100., 900.), |k, rep| {
        let c = vcore::case::zoom_case(label, &a.tier, a.seed, k, hostile);
        f(&c, rep);
    });
}

/// Large inputs (thousands to hundreds of thousands of generators: deep search trees, large index values, long face and
/// connectivity arrays): uniform or density-gradient sets in the milder boxes, all dimensionalities, periodic or not.
pub fn large_cases(a: &Args, rep: &mut Report, label: &str, quick: &[usize], thorough: &[usize], f: impl Fn(&Case, &mut Report) + Sync) {
    if a.leg.as_deref().map_or(false, |l| l != "relcheck" && l != "norayon") {
        return;
    }
    let mut szs: &[usize] = if a.tier == "thorough" { thorough } else { quick };
    // the build without rayon constructs every cell on one thread: its quick leg takes the first size only, its thorough leg
    // the first two
    if a.leg.as_deref() == Some("norayon") || a.leg.as_deref() == Some("relcheck") {
        szs = &szs[..(if a.tier == "thorough" { 2 } else { 1 }).min(szs.len())];
    }
    let make = |k: u64| {
        let n = szs[k as usize];
        let o = GenOpts {
            families: &["uniform", "gradient", "uniform"],
            sizes: &[n],
            dims: &[3, 3, 2, 1],
            mild_box: true,
            ..Default::default()
        };
        gen_case(&format!("{label}large"), &a.tier, a.seed, k, &o)
    };
    // Monitors that read the per-thread hook traces (C17) need the whole construction on one thread: their cases are spread
    // over the pinned workers. The others run one case after the other on the calling thread, so that the library's own
    // parallel loops use the global rayon pool (all cores) - a construction of 70 000 - 270 000 cells on ONE thread, several
    // times per case, is what made these cases the long tail of the quick tier.
    if label == "C17" || cfg!(not(feature = "par")) {
        run_parallel(rep, szs.len() as u64, budget(a, 300., 2400.), |k, rep| {
            let c = make(k);
            f(&c, rep);
            rep.count("large_inputs", 1);
            rep.max("largest_input_generators", c.n() as f64);
        });
    } else {
        for k in 0..szs.len() as u64 {
            let c = make(k);
            if let Err(p) = guarded(|| f(&c, rep)) {
                rep.violations.push(panic_violation(label, &c, &p));
            }
            rep.count("large_inputs", 1);
            rep.max("largest_input_generators", c.n() as f64);
        }
    }
}

/// Medium inputs under non-trivial masks: sizes just above the powers of two 2^10 .. 2^14 (plausible block sizes of a blocked
/// or chunked loop), Bernoulli masks of several densities, halves, every third, all but one. The regular seeded cases stop at
/// 200 (quick) / 1000 (thorough) generators and the large inputs rarely draw a mixed mask.
pub fn medium_cases(a: &Args, rep: &mut Report, label: &str, f: impl Fn(&Case, &mut Report) + Sync) {
    if a.leg.as_deref().map_or(false, |l| l != "relcheck" && l != "norayon") {
        return;
    }
    let n = if a.tier == "thorough" { 80 } else { 12 };
    run_parallel(rep, n, budget(a, 300., 2400.), |k, rep| {
        // (8 300 and 16 500 in the thorough tier only: on one pinned worker they are the long tail of a quick run)
        let szs: &[usize] = if a.tier == "thorough" { &[1100, 2100, 4200, 8300, 16500] } else { &[1100, 2100, 4200] };
        let o = GenOpts {
            families: &["uniform", "gradient", "uniform"],
            sizes: &[szs[k as usize % szs.len()]],
            dims: &[3, 2, 1],
            mild_box: true,
            ..Default::default()
        };
        let mut c = gen_case(&format!("{label}medium"), &a.tier, a.seed, k, &o);
        let mut r = Rng::stream(&format!("{label}mediummask"), &[a.seed, k]);
        let nn = c.n();
        let kind = k / szs.len() as u64 % 6;
        let p = [0.5, 0.1, 0.9][r.below(3)];
        c.mask = Some(match kind {
            0 | 1 => (0..nn).map(|_| r.chance(p)).collect(),
            2 => (0..nn).map(|i| i < nn / 2).collect(),
            3 => (0..nn).map(|i| i >= nn / 2).collect(),
            4 => (0..nn).map(|i| i % 3 != 0).collect(),
            _ => {
                let hole = r.below(nn);
                (0..nn).map(|i| i != hole).collect()
            }
        });
        f(&c, rep);
        rep.count("medium_masked_inputs", 1);
    });
}

pub fn run(a: &Args, rep: &mut Report) {
    match a.id.as_str() {
        "C01" => c01(a, rep),
        "C02" => c02(a, rep),
        "C03" => c03(a, rep),
        "C04" => c04(a, rep),
        "C06" => crate::p_dim::c06(a, rep),
        "C08" => crate::p_dim::c08(a, rep),
        "C16" => crate::p_nn::c16(a, rep),
        "C17" => crate::p_nn::c17(a, rep),
        "C15" => crate::p_poly::c15(a, rep),
        "C18" => crate::p_poly::c18(a, rep),
        "C19" => crate::p_geo::c19(a, rep),
        "C20" => crate::p_geo::c20(a, rep),
        "C09" => {
            let out = a.out_dir.clone().unwrap_or_else(|| a.verif_dir.clone());
            crate::p_par::c09(a, rep, &out)
        }
        "C10" => crate::p_pred::c10(a, rep),
        "C11" => {
            let out = a.out_dir.clone().unwrap_or_else(|| a.verif_dir.clone());
            crate::p_pred::c11(a, rep, &out)
        }
        "C05" => crate::p_total::c05(a, rep),
        // used by `./check setup` to compile a build (e.g. the Miri one) without running a monitor
        "noop" => std::process::exit(0),
        "Xsurvey" => {
            crate::p_total::survey(a);
            std::process::exit(0);
        }
        "Xzoom" => {
            // survey of the zoom family on the current tree: all zoom monitors, nothing else
            zoom_cells(a, rep, "Xzoom", std::env::var("VERIF_ZOOM_HOSTILE").is_ok(), 2000, 20000, |c, rep| {
                crate::p_zoom::one_zoom("Xzoom", c, rep);
                crate::p_nn::one_c17("Xzoom", c, rep);
            });
        }
        "Xdrum" => {
            // survey of the drum family: every ring size of the thorough list, 40 seeds each, all cell-level monitors
            let szs: Vec<usize> = (0..(40. * a.scale) as usize).flat_map(|_| DRUM_THOROUGH[..32].to_vec()).collect();
            drum_cells(a, rep, "Xdrum", &szs, &szs, |c, rep| {
                one_c01("Xdrum", c, rep);
                one_c04("Xdrum", c, rep);
                crate::p_poly::one_c15("Xdrum", c, rep);
                if std::env::var("VERIF_DRUM_C18").is_ok() {
                    crate::p_poly::one_c18("Xdrum", c, rep);
                }
            });
        }
        "C05corpus" => {
            crate::p_total::corpus_dump(a);
            std::process::exit(0);
        }
        "C07" => crate::p_struct::c07(a, rep),
        "C12" => crate::p_struct::c12(a, rep),
        "C13" => crate::p_struct::c13(a, rep),
        other => {
            eprintln!("BROKEN: no monitor for property {other}");
            std::process::exit(2);
        }
    }
}

pub fn replay(a: &Args, path: &Path, rep: &mut Report) -> i32 {
    // `--replay corpus/<origin>` replays an input of the fixed corpus by name
    if let Some(name) = path.to_str().filter(|s| s.starts_with("corpus/")) {
        let Some(case) = vcore::case::corpus(false).into_iter().find(|c| c.origin == name) else {
            eprintln!("BROKEN: no corpus input named {name}");
            return 2;
        };
        in_pool(|| run_one(&a.id, &case, rep));
        for v in &rep.violations {
            println!("VIOLATION property={} replay={name}", v.property);
            println!("  [{}] {}", v.monitor, v.what);
            if std::env::var("VERIF_DETAIL").is_ok() {
                println!("  detail: {}", v.detail);
            }
        }
        return if rep.violations.is_empty() { 0 } else { 1 };
    }
    let txt = std::fs::read_to_string(path).expect("cannot read replay file");
    let v: serde_json::Value = serde_json::from_str(&txt).expect("replay file is not JSON");
    let Some(cj) = v.get("case").filter(|c| !c.is_null()) else {
        // monitors whose cases are not tessellation inputs replay from the detail record
        let handled = match a.id.as_str() {
            "C10" | "C11" => crate::p_pred::replay_c10(&v, rep),
            "C19" => crate::p_geo::replay_c19(&v, rep),
            "C20" => crate::p_geo::replay_c20(&v, rep),
            _ => false,
        };
        if !handled {
            eprintln!("BROKEN: replay file carries no case");
            return 2;
        }
        for v in &rep.violations {
            println!("VIOLATION property={} replay={}", v.property, path.display());
            println!("  [{}] {}", v.monitor, v.what);
        }
        if rep.violations.is_empty() {
            println!("replay: no violation on this case");
        }
        return if rep.violations.is_empty() { 0 } else { 1 };
    };
    let case = Case::from_json(cj);
    println!("replaying {} on case {} (n={}, dim={}, periodic={}, input hash {:016x})", a.id, case.origin, case.n(), case.dim, case.periodic, case.hash());
    in_pool(|| run_one(&a.id, &case, rep));
    let n = rep.violations.len();
    for (k, v) in &rep.counters {
        println!("  counter {k} = {v}");
    }
    for (k, v) in &rep.maxima {
        println!("  max {k} = {v:e}   {}", rep.maxima_at.get(k).map(|s| s.as_str()).unwrap_or(""));
    }
    for v in &rep.violations {
        println!("VIOLATION property={} replay={}", v.property, path.display());
        println!("  [{}] {}", v.monitor, v.what);
        if std::env::var("VERIF_DETAIL").is_ok() {
            println!("  detail: {}", v.detail);
        }
    }
    if n > 0 {
        1
    } else {
        println!("replay: no violation on this case");
        0
    }
}

/// Run the monitors of property `id` on one explicit case (used by --replay and by the corpus).
pub fn run_one(id: &str, c: &Case, rep: &mut Report) {
    if id == "Xdump" {
        // debugging aid: print the cells and faces of a replayed case
        println!("case_hash {:016x}", c.hash());
        if let Ok(b) = build_observed(c, 0, 0) {
            for (i, cell) in b.v.cells().iter().enumerate() {
                println!("cell {i} loc {:?} volume {:e} centroid {:?} r_s {:e}", cell.loc(), cell.volume(), cell.centroid(), cell.safety_radius());
            }
            for f in b.v.faces() {
                println!("face {}->{:?} shift {:?} area {:e} centroid {:?} normal {:?}", f.left(), f.right(), f.shift(), f.area(), f.centroid(), f.normal());
            }
            if let Ok(k) = std::env::var("VERIF_DUMP_CELL") {
                let k: usize = k.parse().unwrap();
                if let Some(cc) = b.vi.get_cell_at(k) {
                    for (q, v) in cc.vertices.iter().enumerate() {
                        println!("cell {k} vertex {q} at {:?} dual {:?}", v.loc, v.dual);
                    }
                    for (q, hp) in cc.clipping_planes.iter().enumerate() {
                        println!("cell {k} plane {q} n {:?} p {:?} right {:?}", hp.plane.n, hp.plane.p, hp.right_idx);
                    }
                }
            }
        }
        return;
    }
    if c.family == "zoom" && matches!(id, "C01" | "C05" | "C06" | "C16" | "Xzoom") {
        crate::p_zoom::one_zoom(id, c, rep);
        return;
    }
    match id {
        "C01" => one_c01(id, c, rep),
        "C02" => one_c02(id, c, rep),
        "C03" => one_c03(id, c, rep),
        "C04" => one_c04(id, c, rep),
        "C06" => crate::p_dim::one_c06(id, c, rep),
        "C08" => crate::p_dim::one_c08(id, c, rep),
        "C16" => crate::p_nn::one_c16(id, c, rep),
        "C17" => crate::p_nn::one_c17(id, c, rep),
        "C09" => crate::p_par::replay_c09(c, rep),
        "C15" => crate::p_poly::one_c15(id, c, rep),
        "C18" => crate::p_poly::one_c18(id, c, rep),
        "C05" => crate::p_total::one_c05(id, c, rep),
        "C11" => {
            // a tessellation on which two back ends differed: this build's digest and exact decisions
            if let Ok(b) = build_observed(c, 4000, 0) {
                crate::p_exact::check_exact_log(id, c, &b.trace, rep);
                println!("  back end {}: digest {} exact calls {}", crate::p_pred::backend_name(), digest_voronoi(&b.v).hex(), b.trace.exact_count);
            }
        }
        "C07" => crate::p_struct::one_c07(id, c, rep),
        "C12" => crate::p_struct::one_c12(id, c, rep),
        "C13" => crate::p_struct::one_c13(id, c, rep),
        _ => eprintln!("replay not supported for {id}"),
    }
}

pub fn note_case(rep: &mut Report, c: &Case, nontrivial: bool) {
    if let Ok(path) = std::env::var("VERIF_DUMP") {
        let body = json!({"case": c.to_json()});
        let _ = std::fs::write(path, serde_json::to_string_pretty(&body).unwrap());
    }
    rep.evaluations += 1;
    if nontrivial {
        rep.nontrivial.insert(c.hash());
    }
    rep.sample(c.summary());
}

// ------------------------------------------------------------------------------------------------

fn one_c01(prop: &str, c: &Case, rep: &mut Report) {
    match build_observed(c, 0, 0) {
        Err(p) => {
            rep.violations.push(panic_violation(prop, c, &p));
            note_case(rep, c, false);
        }
        Ok(mut b) => {
            let rd = geom::reference(c);
            geom::check_c01(prop, c, &b, &rd, rep);
            rep.count("exact_predicate_calls", b.trace.exact_count);
            // the tessellation of the direct route, when it is not bitwise the converted one: same oracle
            if b.other_route() {
                rep.count("direct_route_differs_judged_separately", 1);
                geom::check_c01(prop, c, &b, &rd, rep);
            }
            // third source of the face list (3D, every third input): the integrals evaluated on the with-faces integrator -
            // another decomposition (fans of the stored face polygons) of the same cells. Not for inputs with a generator
            // exactly on a wall of a non-periodic box (finding F9: that wall face gets the area 0 there; C14 / C15 report it)
            let (an, wn) = c.norm_box();
            let on_wall = !c.periodic && c.pts.iter().any(|p| (0..3).any(|ax| p[ax] == an[ax] || p[ax] == an[ax] + wn[ax]));
            if c.dim == 3 && c.hash() % 3 == 0 && !on_wall {
                match guarded(|| b.vi.clone().with_faces().compute_face_integrals::<meshless_voronoi::integrals::AreaCentroidIntegral>()) {
                    Ok(w) => {
                        b.nonsym = w;
                        rep.count("with_faces_face_lists_judged", 1);
                        geom::check_c01(prop, c, &b, &rd, rep);
                    }
                    Err(p) => rep.violations.push(panic_violation(prop, c, &p)),
                }
            }
            note_case(rep, c, c.n() >= 2);
        }
    }
}

/// Leg `qhull`: run C01 on general-position inputs and export the reference and implementation results for the
/// Qhull cross-check (pyref/qhull_check.py).
fn c01_qhull_export(a: &Args, rep: &mut Report) {
    use vcore::refcell::Key;
    let out = a.out_dir.clone().unwrap_or_else(|| a.verif_dir.clone()).join("evidence").join("legs");
    let _ = std::fs::create_dir_all(&out);
    let n = ncases(a, 60, 400);
    let slots: Vec<std::sync::Mutex<Option<serde_json::Value>>> = (0..n).map(|_| std::sync::Mutex::new(None)).collect();
    run_parallel(rep, n, 600., |k, rep| {
        let o = GenOpts {
            sizes: &[2, 3, 5, 8, 13, 27, 40],
            families: &["uniform", "uniform", "mildcluster", "tiny"],
            dims: &[3, 3, 2],
            mild_box: true,
            ..Default::default()
        };
        let c = gen_case("C01qhull", &a.tier, a.seed, k, &o);
        one_c01("C01", &c, rep);
        let Ok(b) = build_observed(&c, 0, 0) else { return };
        let rd = geom::reference(&c);
        let (an, wn) = c.norm_box();
        let cells: Vec<serde_json::Value> = (0..c.n())
            .filter_map(|i| {
                let rs = rd.sums[i].as_ref()?;
                let faces: serde_json::Map<String, serde_json::Value> = rs
                    .faces
                    .iter()
                    .filter_map(|(k, f)| match k {
                        Key::Gen(j, sh) if f.area > 0. => Some((format!("{j}:{},{},{}", sh[0], sh[1], sh[2]), json!(f.area))),
                        _ => None,
                    })
                    .collect();
                Some(json!({"idx": i, "ref_volume": rs.volume, "impl_volume": b.v.cells()[i].volume(), "ref_faces": faces}))
            })
            .collect();
        *slots[k as usize].lock().unwrap() = Some(json!({"origin": c.origin, "dim": c.dim, "periodic": c.periodic, "anchor": [an.x, an.y, an.z], "width": [wn.x, wn.y, wn.z],
            "pts": c.proj_pts().iter().map(|p| vec![p.x, p.y, p.z]).collect::<Vec<_>>(), "cells": cells}));
    });
    let cases: Vec<serde_json::Value> = slots.into_iter().filter_map(|m| m.into_inner().unwrap()).collect();
    std::fs::write(out.join("C01.qhull_export.json"), serde_json::to_string(&json!({"cases": cases})).unwrap()).expect("write export");
}

fn c01(a: &Args, rep: &mut Report) {
    if a.leg.as_deref() == Some("qhull") {
        return c01_qhull_export(a, rep);
    }
    rep.rule = "cases = seeded inputs of the conditioned families (uniform, lattice, centred lattice, boundary lattice, coplanar/collinear, mild cluster, tiny) x dimensionality x periodic flag x box shape/scale/offset; distinct = distinct input hash; non-trivial = at least 2 generators (so at least one bisector is compared with the brute-force reference)".into();
    rep.assumptions = vec![
        "the brute-force reference clipper (vcore::refcell) is itself correct; it is cross-checked against closed forms and (thorough) Qhull".into(),
        "tolerance model of DESIGN 5.3; cells with summed vertex error bound > 1e-6 L only get the membership test".into(),
    ];
    let szs = sizes(a);
    let n = ncases(a, 8000, 80000);
    let masks = a.tier == "thorough";
    run_parallel(rep, n, budget(a, 100., 1500.), |k, rep| {
        let o = GenOpts {
            sizes: &szs,
            ..Default::default()
        };
        let mut c = gen_case("C01", &a.tier, a.seed, k, &o);
        if masks && k % 5 == 4 && c.n() > 0 {
            let mut r = Rng::stream("C01mask", &[a.seed, k]);
            c.mask = Some(gen_mask(c.n(), &mut r));
        }
        one_c01("C01", &c, rep);
    });
    giant_cells(a, rep, "C01", &[3000], &[3000, 12000, 12000], |c, rep| one_c01("C01", c, rep));
    wedge_cells(a, rep, "C01", 1500, 20000, |c, rep| one_c01("C01", c, rep));
    drum_cells(a, rep, "C01", &DRUM_QUICK, &DRUM_THOROUGH, |c, rep| one_c01("C01", c, rep));
    zoom_cells(a, rep, "C01", false, 400, 6000, |c, rep| crate::p_zoom::one_zoom("C01", c, rep));
}

fn one_c02(prop: &str, c: &Case, rep: &mut Report) {
    match build_observed(c, 0, 0) {
        Err(p) => {
            rep.violations.push(panic_violation(prop, c, &p));
            note_case(rep, c, false);
        }
        Ok(mut b) => {
            // the reference is only needed to judge positivity of a non-positive cell
            let need_ref = b.v.cells().iter().chain(b.direct.iter().flat_map(|d| d.cells().iter())).any(|x| !(x.volume() > 0.));
            let rd = if need_ref { Some(geom::reference(c)) } else { None };
            geom::check_c02(prop, c, &b, rd.as_ref(), rep);
            // second route: the volume integral evaluated through the integrator
            let vols = b.vi.compute_cell_integrals::<meshless_voronoi::integrals::VolumeIntegral>();
            let tot: f64 = vols.iter().map(|v| v.volume).sum();
            let tot2: f64 = b.v.cells().iter().map(|x| x.volume()).sum();
            let s = scales(c);
            if !((tot - tot2).abs() <= K * s.u * s.vbox * (c.n() as f64)) {
                rep.violations.push(Violation::new(prop, "c02.routes", format!("sum of VolumeIntegral {tot:e} differs from the sum of stored volumes {tot2:e}"), Some(c), json!({})));
            }
            // third route: Voronoi::build itself, when it is not bitwise the tessellation converted from the integrator
            if b.other_route() {
                rep.count("direct_route_differs_judged_separately", 1);
                geom::check_c02(prop, c, &b, rd.as_ref(), rep);
            }
            note_case(rep, c, true);
        }
    }
}

fn c02(a: &Args, rep: &mut Report) {
    rep.rule = "cases = seeded full builds of the conditioned families with emphasis on 1D, periodic, anisotropic boxes and large offsets; distinct = distinct input hash; non-trivial = the sum of measures was compared with the closed-form box measure (every case)".into();
    rep.assumptions = vec!["box measure = product of the active widths as given by the harness input (unit thickness on unused axes)".into()];
    let szs = sizes(a);
    let n = ncases(a, 40000, 400000);
    run_parallel(rep, n, budget(a, 100., 900.), |k, rep| {
        let o = GenOpts {
            sizes: &szs,
            dims: &[3, 3, 2, 2, 1, 1],
            ..Default::default()
        };
        let c = gen_case("C02", &a.tier, a.seed, k, &o);
        one_c02("C02", &c, rep);
    });
    large_cases(a, rep, "C02", &[20000, 70000], &[20000, 70000, 140000, 270000], |c, rep| one_c02("C02", c, rep));
}

fn one_c03(prop: &str, c: &Case, rep: &mut Report) {
    match build_observed(c, 0, 0) {
        Err(p) => {
            rep.violations.push(panic_violation(prop, c, &p));
            note_case(rep, c, false);
        }
        Ok(mut b) => {
            let before = rep.counters.get("face_pairs_checked").copied().unwrap_or(0);
            geom::check_c03(prop, c, &b, rep);
            let after = rep.counters.get("face_pairs_checked").copied().unwrap_or(0);
            if b.other_route() {
                rep.count("direct_route_differs_judged_separately", 1);
                geom::check_c03(prop, c, &b, rep);
            }
            note_case(rep, c, after > before);
        }
    }
}

pub fn with_random_mask(label: &str, a: &Args, k: u64, c: &mut Case, every: u64) {
    if k % every == every - 1 && c.n() > 0 {
        let mut r = Rng::stream(label, &[a.seed, k]);
        c.mask = Some(gen_mask(c.n(), &mut r));
    }
}

fn c03(a: &Args, rep: &mut Report) {
    rep.rule = "cases = seeded inputs (conditioned families, all dimensionalities, periodic or not, one third with masks); distinct = distinct input hash; non-trivial = at least one face between two constructed cells was compared from both sides".into();
    rep.assumptions = vec!["tolerance model of DESIGN 5.3 for the two cells sharing a face".into()];
    let szs = sizes(a);
    let n = ncases(a, 24000, 200000);
    run_parallel(rep, n, budget(a, 100., 900.), |k, rep| {
        let o = GenOpts {
            sizes: &szs,
            ..Default::default()
        };
        let mut c = gen_case("C03", &a.tier, a.seed, k, &o);
        with_random_mask("C03mask", a, k, &mut c, 3);
        one_c03("C03", &c, rep);
    });
    large_cases(a, rep, "C03", &[20000, 70000], &[20000, 70000, 150000], |c, rep| one_c03("C03", c, rep));
}

fn one_c04(prop: &str, c: &Case, rep: &mut Report) {
    match build_observed(c, 0, 0) {
        Err(p) => {
            rep.violations.push(panic_violation(prop, c, &p));
            note_case(rep, c, false);
        }
        Ok(b) => {
            geom::check_c04(prop, c, &b, &b.v, rep);
            // the directly built tessellation must satisfy the same identities (kept by build_observed when it is not
            // bitwise the converted one)
            if let Some(v) = &b.direct {
                rep.count("direct_route_differs_judged_separately", 1);
                geom::check_c04(prop, c, &b, v, rep);
            }
            // the faces that the public conversion primitive appends to caller-owned vectors, after two calls
            geom::check_c04_face_vectors(prop, c, &b, rep);
            note_case(rep, c, b.vi.cells_iter().next().is_some());
        }
    }
}

fn c04(a: &Args, rep: &mut Report) {
    rep.rule = "cases = seeded inputs (conditioned families, all dimensionalities, periodic or not, one third partial builds); distinct = distinct input hash; non-trivial = at least one constructed cell whose faces were checked".into();
    rep.assumptions = vec!["tolerance model of DESIGN 5.3".into()];
    let szs = sizes(a);
    let n = ncases(a, 24000, 200000);
    run_parallel(rep, n, budget(a, 100., 900.), |k, rep| {
        let o = GenOpts {
            sizes: &szs,
            ..Default::default()
        };
        let mut c = gen_case("C04", &a.tier, a.seed, k, &o);
        with_random_mask("C04mask", a, k, &mut c, 3);
        one_c04("C04", &c, rep);
    });
    giant_cells(a, rep, "C04", &[3000, 12000], &[3000, 12000, 25000, 40000], |c, rep| one_c04("C04", c, rep));
    wedge_cells(a, rep, "C04", 3000, 40000, |c, rep| one_c04("C04", c, rep));
    drum_cells(a, rep, "C04", &DRUM_QUICK, &DRUM_THOROUGH, |c, rep| one_c04("C04", c, rep));
    // the fixed witnesses of finding F12 (findings/F12-*.json; known finding, matched by input hash + signature)
    if a.leg.is_none() {
        let mut files: Vec<_> = std::fs::read_dir(a.verif_dir.join("findings")).map(|d| d.filter_map(|e| e.ok()).map(|e| e.path()).collect()).unwrap_or_default();
        files.retain(|p: &std::path::PathBuf| p.file_name().and_then(|n| n.to_str()).map_or(false, |n| n.starts_with("F12-") && n.ends_with(".json")));
        files.sort();
        for f in files {
            let Ok(txt) = std::fs::read_to_string(&f) else { continue };
            let Ok(v) = serde_json::from_str::<serde_json::Value>(&txt) else { continue };
            let Some(cj) = v.get("case") else { continue };
            let mut c = Case::from_json(cj);
            c.origin = format!("findings/{}", f.file_name().unwrap().to_string_lossy());
            in_pool(|| one_c04("C04", &c, rep));
            rep.count("f12_witness_inputs", 1);
        }
    }
}
