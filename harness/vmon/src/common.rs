//! Shared plumbing of the monitors: running the library under observation, panic capture, worker pool,
//! tolerance model (DESIGN 5.3), digests (DESIGN 5.5), keyed face tables.

use glam::DVec3;
use meshless_voronoi::integrals::{AreaCentroidIntegral, FaceIntegrator};
use meshless_voronoi::verif::{self, Trace};
use meshless_voronoi::{ConvexCell, Dimensionality, Voronoi, VoronoiIntegrator};
use std::cell::RefCell;
use std::collections::BTreeMap;
use std::panic::{catch_unwind, AssertUnwindSafe};
use std::sync::atomic::{AtomicU64, Ordering};
use std::sync::Mutex;
use vcore::case::Case;
use vcore::digest::Digest;
use vcore::refcell::Key;
use vcore::report::Report;

pub use meshless_voronoi::verif::{WithFaces, WithoutFaces};

pub const U: f64 = 1.1102230246251565e-16; // 2^-53
pub const K: f64 = 64.;

pub fn dimn(d: usize) -> Dimensionality {
    match d {
        1 => Dimensionality::OneD,
        2 => Dimensionality::TwoD,
        _ => Dimensionality::ThreeD,
    }
}

// ------------------------------------------------------------------------------------------------
// panic capture

#[derive(Clone, Debug, Default)]
pub struct PanicInfo {
    pub message: String,
    pub file: String,
    pub line: u32,
}

impl PanicInfo {
    /// stable signature: file + message without numbers
    pub fn signature(&self) -> String {
        let file = self.file.rsplit('/').next().unwrap_or("").to_string();
        let msg: String = self.message.chars().filter(|c| !c.is_ascii_digit()).take(60).collect();
        format!("panic:{}:{}", file, msg.trim())
    }
}

thread_local! {
    static LAST_PANIC: RefCell<Option<PanicInfo>> = const { RefCell::new(None) };
}

pub fn install_panic_hook() {
    std::panic::set_hook(Box::new(|info| {
        let message = if let Some(s) = info.payload().downcast_ref::<&str>() {
            s.to_string()
        } else if let Some(s) = info.payload().downcast_ref::<String>() {
            s.clone()
        } else {
            "<non-string panic>".to_string()
        };
        let (file, line) = info.location().map(|l| (l.file().to_string(), l.line())).unwrap_or_default();
        LAST_PANIC.with(|p| {
            *p.borrow_mut() = Some(PanicInfo {
                message,
                file,
                line,
            })
        });
    }));
}

/// Run `f`, converting a panic into `Err(PanicInfo)`.
pub fn guarded<T>(f: impl FnOnce() -> T) -> Result<T, PanicInfo> {
    LAST_PANIC.with(|p| *p.borrow_mut() = None);
    match catch_unwind(AssertUnwindSafe(f)) {
        Ok(v) => Ok(v),
        Err(_) => Err(LAST_PANIC.with(|p| p.borrow_mut().take()).unwrap_or_default()),
    }
}

// ------------------------------------------------------------------------------------------------
// worker pool: N OS threads, each inside its own single-thread rayon pool, so that the library's parallel loops
// run on the worker's own thread and the thread-local hook traces belong to exactly one case.

pub fn n_workers() -> usize {
    std::env::var("VERIF_JOBS")
        .ok()
        .and_then(|s| s.parse().ok())
        .unwrap_or_else(|| std::thread::available_parallelism().map(|n| n.get()).unwrap_or(4))
}

/// Run `work(k, &mut local_report)` for k in 0..ncases on the worker pool; merge the local reports.
/// A wall-clock budget (seconds) stops handing out new cases (reported, never a verdict).
pub fn run_parallel<F>(report: &mut Report, ncases: u64, budget_s: f64, work: F)
where
    F: Fn(u64, &mut Report) + Sync,
{
    let next = AtomicU64::new(0);
    let merged: Mutex<Vec<Report>> = Mutex::new(vec![]);
    let start = std::time::Instant::now();
    let skipped = AtomicU64::new(0);
    let nw = n_workers();
    std::thread::scope(|s| {
        for _ in 0..nw {
            s.spawn(|| {
                let mut local = Report::new(&report.property, &report.tier, report.seed);
                let mut body = || loop {
                    let k = next.fetch_add(1, Ordering::Relaxed);
                    if k >= ncases {
                        break;
                    }
                    if let Some(only) = only_case() {
                        if k != only {
                            continue;
                        }
                    }
                    if start.elapsed().as_secs_f64() > budget_s {
                        skipped.fetch_add(1, Ordering::Relaxed);
                        continue;
                    }
                    case_log(k);
                    // a panic that escapes the monitor body (raised by the library in a call the monitor did not guard)
                    // is still an observation about this case, not a reason to lose the whole run
                    if let Err(p) = guarded(|| work(k, &mut local)) {
                        local.violations.push(
                            vcore::report::Violation::new(
                                &local.property.clone(),
                                "totality.panic",
                                format!("case {k}: panic outside the guarded calls of the monitor at {}:{}: {} (re-run with VERIF_ONLY_CASE={k})", p.file, p.line, p.message),
                                None,
                                serde_json::json!({"case_number": k, "file": p.file, "line": p.line, "message": p.message}),
                            )
                            .with_signature(&p.signature()),
                        );
                    }
                };
                #[cfg(feature = "par")]
                {
                    let pool = rayon::ThreadPoolBuilder::new().num_threads(1).build().expect("pool");
                    pool.install(&mut body);
                }
                #[cfg(not(feature = "par"))]
                body();
                merged.lock().unwrap().push(local);
            });
        }
    });
    for l in merged.into_inner().unwrap() {
        report.merge(l);
    }
    let sk = skipped.load(Ordering::Relaxed);
    if sk > 0 {
        report.count("cases_skipped_by_time_budget", sk);
    }
}

/// Run `f` on the single thread of a private rayon pool, so that the library's parallel loops and the thread-local
/// hook traces / panic records all live on one thread (as in `run_parallel`).
pub fn in_pool<T: Send>(f: impl FnOnce() -> T + Send) -> T {
    #[cfg(feature = "par")]
    {
        let pool = rayon::ThreadPoolBuilder::new().num_threads(1).build().expect("pool");
        pool.install(f)
    }
    #[cfg(not(feature = "par"))]
    f()
}

// ------------------------------------------------------------------------------------------------
// running the library

pub struct Built {
    pub vi: VoronoiIntegrator<WithoutFaces>,
    pub v: Voronoi,
    pub nonsym: Vec<FaceIntegrator<AreaCentroidIntegral>>,
    pub trace: Trace,
    /// The tessellation of the DIRECT route (`Voronoi::build` / `build_partial`), kept only when it is not bitwise the one
    /// converted from the integrator (`v`): the monitors then judge it with the same oracles (`other_route`). When the two
    /// digests agree the verdict on `v` is the verdict on both routes.
    pub direct: Option<Voronoi>,
}

impl Built {
    /// When the direct route produced another tessellation than the integrator route: the same observation with the direct
    /// tessellation in the place of `v` (to be judged by the same oracle). None when both routes agree bitwise.
    pub fn other_route(&mut self) -> bool {
        match self.direct.take() {
            Some(d) => {
                self.v = d;
                true
            }
            None => false,
        }
    }
}

pub fn mask_ref(c: &Case) -> Option<&[bool]> {
    c.mask.as_deref()
}

pub fn build_integrator(c: &Case) -> VoronoiIntegrator<WithoutFaces> {
    VoronoiIntegrator::build(&c.pts, mask_ref(c), c.anchor, c.width, dimn(c.dim), c.periodic)
}

pub fn build_direct(c: &Case) -> Voronoi {
    match &c.mask {
        None => Voronoi::build(&c.pts, c.anchor, c.width, dimn(c.dim), c.periodic),
        Some(m) => Voronoi::build_partial(&c.pts, m, c.anchor, c.width, dimn(c.dim), c.periodic),
    }
}

/// Build through the integrator route with the hook trace switched on.
pub fn build_observed(c: &Case, exact_cap: usize, cand_cap: usize) -> Result<Built, PanicInfo> {
    verif::trace_begin(exact_cap, cand_cap);
    let r = guarded(|| {
        let vi = build_integrator(c);
        let v = Voronoi::from(&vi);
        let nonsym = vi.compute_face_integrals::<AreaCentroidIntegral>();
        (vi, v, nonsym)
    });
    let trace = verif::trace_end();
    let (vi, v, nonsym) = r?;
    // the direct route, outside the trace (the hook events of the case are those of one construction)
    let direct = guarded(|| build_direct(c))?;
    let direct = if digest_voronoi(&direct).0 == digest_voronoi(&v).0 { None } else { Some(direct) };
    Ok(Built {
        vi,
        v,
        nonsym,
        trace,
        direct,
    })
}

pub fn is_active(c: &Case, i: usize) -> bool {
    c.mask.as_ref().map_or(true, |m| m[i])
}

// ------------------------------------------------------------------------------------------------
// tolerance model

#[derive(Clone, Copy, Debug, Default)]
pub struct CellTol {
    /// sum of the vertex position error bounds
    pub delta: f64,
    pub max_dv: f64,
    pub tol_v: f64,
    pub tol_m: f64,
    pub tol_a: f64,
    pub tol_am: f64,
    pub ill: bool,
    pub surface: f64,
    pub diam: f64,
}

pub struct Scales {
    pub u: f64,
    /// largest coordinate magnitude of the (tripled, when periodic) box
    pub m: f64,
    pub l: f64,
    pub lmin: f64,
    pub vbox: f64,
    /// box face scale L^(d-1)
    pub ascale: f64,
    /// "non-negligible" face area threshold
    pub athr: f64,
    pub dim: usize,
}

pub fn scales(c: &Case) -> Scales {
    let (a, w) = c.norm_box();
    let (mut lo, mut hi) = (a, a + w);
    if c.periodic {
        for k in 0..c.dim {
            lo[k] -= w[k];
            hi[k] += w[k];
        }
    }
    let l = c.lmax();
    let m = lo.abs().max(hi.abs()).max_element().max(l);
    let ascale = if c.dim == 1 { 1. } else { l.powi(c.dim as i32 - 1) };
    Scales {
        u: U,
        m,
        l,
        lmin: c.lmin(),
        vbox: c.box_measure(),
        ascale,
        athr: 1e-9 * ascale,
        dim: c.dim,
    }
}

fn det3(a: DVec3, b: DVec3, c: DVec3) -> f64 {
    a.dot(b.cross(c))
}

/// Position error bound of one vertex: K u M / |det(n1, n2, n3)|
pub fn vertex_delta(cell: &ConvexCell<WithoutFaces>, vi: usize, s: &Scales) -> f64 {
    let d = cell.vertices[vi].dual;
    let det = det3(
        cell.clipping_planes[d[0]].plane.n,
        cell.clipping_planes[d[1]].plane.n,
        cell.clipping_planes[d[2]].plane.n,
    )
    .abs();
    K * s.u * s.m / det.max(1e-300)
}

pub fn cell_tol(cell: &ConvexCell<WithoutFaces>, s: &Scales) -> CellTol {
    let mut t = CellTol::default();
    let mut rmax: f64 = 0.;
    for i in 0..cell.vertices.len() {
        let dv = vertex_delta(cell, i, s);
        t.delta += dv;
        t.max_dv = t.max_dv.max(dv);
        rmax = rmax.max(cell.vertices[i].loc.distance(cell.loc));
    }
    t.diam = 2. * rmax;
    // surface bound of a convex body inside a ball of radius rmax (and inside the box)
    let surf = match s.dim {
        3 => 4. * std::f64::consts::PI * rmax * rmax,
        2 => 2. * (2. * std::f64::consts::PI * rmax) + 2. * std::f64::consts::PI * rmax * rmax,
        _ => 2. + 4. * 2. * rmax,
    };
    t.surface = surf;
    let rel = K * s.u * (1. + s.m / s.l);
    t.tol_v = t.delta * surf + rel * s.vbox;
    t.tol_m = t.tol_v * s.m.max(s.l) * 2.;
    let perim_like = match s.dim {
        3 => 2. * std::f64::consts::PI * rmax,
        2 => 2. + 4. * rmax, // a face is a segment times unit thickness: moving its end points changes its area by delta
        _ => 4.,
    };
    t.tol_a = t.delta * perim_like + rel * s.ascale;
    t.tol_am = t.tol_a * s.m.max(s.l) * 2.;
    // the sum grows with the number of vertices: beyond 64 vertices the threshold scales with the size of the cell, so that
    // a giant cell with thousands of well-conditioned vertices still gets the metric comparisons
    t.ill = !(t.delta <= ill_threshold() * s.l * (cell.vertices.len() as f64 / 64.).max(1.));
    t
}

// ------------------------------------------------------------------------------------------------
// keyed face tables of the implementation

#[derive(Clone, Copy, Debug)]
pub struct IFace {
    pub area: f64,
    pub centroid: DVec3,
    pub count: usize,
}

/// Classify a shift vector in units of the width; 99 marks a component that is off the lattice.
pub fn shift_key(shift: Option<DVec3>, w: DVec3) -> [i8; 3] {
    let s = shift.unwrap_or(DVec3::ZERO);
    let mut k = [0i8; 3];
    for a in 0..3 {
        k[a] = if s[a] == 0. {
            0
        } else if s[a] == w[a] {
            1
        } else if s[a] == -w[a] {
            -1
        } else {
            99
        };
    }
    k
}

pub fn wall_of_normal(n: DVec3) -> Option<u8> {
    // outward normal of the face = direction of the wall
    let t = [
        (DVec3::NEG_X, 0u8),
        (DVec3::X, 1),
        (DVec3::NEG_Y, 2),
        (DVec3::Y, 3),
        (DVec3::NEG_Z, 4),
        (DVec3::Z, 5),
    ];
    t.iter().find(|(d, _)| *d == n).map(|x| x.1)
}

/// Per cell: faces towards generators (own-side view, from the non-symmetric face integrals).
pub fn gen_face_tables(b: &Built, c: &Case) -> Vec<BTreeMap<Key, IFace>> {
    let (_, w) = c.norm_box();
    let mut t = vec![BTreeMap::new(); c.n()];
    for f in &b.nonsym {
        if let Some(j) = f.right() {
            let key = Key::Gen(j, shift_key(f.shift(), w));
            let e = t[f.left()].entry(key).or_insert(IFace {
                area: 0.,
                centroid: DVec3::ZERO,
                count: 0,
            });
            e.area += f.integral().area;
            e.centroid = f.integral().centroid;
            e.count += 1;
        }
    }
    t
}

/// Per cell: wall faces from the compact tessellation (these carry the normal).
pub fn wall_face_tables(v: &Voronoi, n: usize) -> Vec<BTreeMap<Key, IFace>> {
    let mut t = vec![BTreeMap::new(); n];
    for f in v.faces() {
        if f.right().is_none() {
            let key = match wall_of_normal(f.normal()) {
                Some(k) => Key::Wall(k),
                None => Key::Wall(200),
            };
            let e = t[f.left()].entry(key).or_insert(IFace {
                area: 0.,
                centroid: DVec3::ZERO,
                count: 0,
            });
            e.area += f.area();
            e.centroid = f.centroid();
            e.count += 1;
        }
    }
    t
}

// ------------------------------------------------------------------------------------------------
// digests

pub fn digest_voronoi(v: &Voronoi) -> Digest {
    let mut d = Digest::new();
    d.v3(v.anchor());
    d.v3(v.width());
    d.usize(v.dimensionality());
    d.byte(v.periodic() as u8);
    d.usize(v.cells().len());
    for c in v.cells() {
        d.v3(c.loc());
        d.v3(c.centroid());
        d.f64(c.volume());
        d.f64(c.safety_radius());
        d.usize(c.face_connections_offset());
        d.usize(c.face_count());
    }
    d.usize(v.faces().len());
    for f in v.faces() {
        d.usize(f.left());
        d.opt_usize(f.right());
        d.opt_v3(f.shift());
        d.f64(f.area());
        d.v3(f.centroid());
        d.v3(f.normal());
    }
    d.usize(v.cell_face_connections().len());
    for &i in v.cell_face_connections() {
        d.usize(i);
    }
    // the neighbour iterator of every cell (the only place where the generator index recorded by a cell, also by an
    // unconstructed one, is observable)
    let nb = catch_unwind(AssertUnwindSafe(|| v.cells().iter().map(|c| c.neighbour_ids(v).collect::<Vec<usize>>()).collect::<Vec<_>>()));
    match nb {
        Ok(lists) => {
            for l in lists {
                d.usize(l.len());
                for i in l {
                    d.usize(i);
                }
            }
        }
        Err(_) => d.byte(0xEE),
    }
    d
}

pub fn digest_faces(fs: &[FaceIntegrator<AreaCentroidIntegral>]) -> Digest {
    let mut d = Digest::new();
    d.usize(fs.len());
    for f in fs {
        d.usize(f.left());
        d.opt_usize(f.right());
        d.opt_v3(f.shift());
        d.f64(f.integral().area);
        d.v3(f.integral().centroid);
    }
    d
}

pub fn v3j(v: DVec3) -> serde_json::Value {
    serde_json::json!([v.x, v.y, v.z])
}

/// Cells whose summed vertex error bound exceeds this fraction of the box size only get the membership /
/// topological checks (metric comparisons on them are inconclusive).
pub fn ill_threshold() -> f64 {
    static T: std::sync::OnceLock<f64> = std::sync::OnceLock::new();
    *T.get_or_init(|| std::env::var("VERIF_ILL").ok().and_then(|s| s.parse().ok()).unwrap_or(1e-8))
}

/// debugging aid: VERIF_ONLY_CASE=<k> runs only case number k of the stream
/// `VERIF_CASELOG=<file>`: append the number of every case before it is run (flushed), so that the driver can tell which
/// case a crash of the process (SIGSEGV, abort from a non-unwinding panic) belongs to.
pub fn case_log(k: u64) {
    use std::io::Write;
    if let Ok(path) = std::env::var("VERIF_CASELOG") {
        if let Ok(mut f) = std::fs::OpenOptions::new().create(true).append(true).open(path) {
            let _ = writeln!(f, "{k}");
            let _ = f.flush();
        }
    }
}

pub fn only_case() -> Option<u64> {
    std::env::var("VERIF_ONLY_CASE").ok().and_then(|s| s.parse().ok())
}
