//! C16 (safety radius bounds the cell and its region of influence) and C17 (candidates are enumerated completely
//! and in order of distance).

use crate::common::*;
use crate::geom;
use crate::p_dim::face_tables;
use crate::props::*;
use crate::Args;
use glam::DVec3;
use meshless_voronoi::verif;
use serde_json::json;
use std::collections::{BTreeSet, HashSet};
use vcore::case::{gen_case, project, Case, GenOpts};
use vcore::refcell::Key;
use vcore::report::{Report, Violation};
use vcore::rng::Rng;

fn shift_vec(sh: [i8; 3], w: DVec3) -> DVec3 {
    DVec3::new(sh[0] as f64 * w.x, sh[1] as f64 * w.y, sh[2] as f64 * w.z)
}

/// all lattice shifts of a case (only the zero shift when not periodic)
fn all_shifts(c: &Case) -> Vec<[i8; 3]> {
    let rng = |k: usize| if c.periodic && k < c.dim { vec![0i8, -1, 1] } else { vec![0i8] };
    let mut v = vec![];
    for sx in rng(0) {
        for sy in rng(1) {
            for sz in rng(2) {
                v.push([sx, sy, sz]);
            }
        }
    }
    v
}

// ------------------------------------------------------------------------------------------------
// C17

/// Check one complete (or prefix of a) visit sequence for the query generator `q`.
/// `complete` = the sequence was not cut off by a limit / early termination.
#[allow(clippy::too_many_arguments)]
fn check_sequence(prop: &str, c: &Case, q: usize, seq: &[(usize, Option<DVec3>)], complete: bool, starts_with_self: bool, source: &str, rep: &mut Report) {
    let s = scales(c);
    let (_, w) = c.norm_box();
    let pts = c.proj_pts();
    let n = c.n();
    let g = pts[q];
    if starts_with_self {
        match seq.first() {
            Some((i, None)) if *i == q => {}
            other => {
                rep.violations.push(Violation::new(prop, "c17.first_not_self", format!("{source}: the first candidate of generator {q} is {other:?}, not the generator itself without shift"), Some(c), json!({"query": q})));
            }
        }
    }
    let mut seen: HashSet<(usize, [i8; 3])> = HashSet::new();
    let mut runmax = 0.0f64;
    let mut runmax_at = 0usize;
    for (k, (j, sh)) in seq.iter().enumerate() {
        rep.count("visits_checked", 1);
        if *j >= n {
            rep.violations.push(Violation::new(prop, "c17.index_out_of_range", format!("{source}: visit {k} of generator {q} names generator {j} >= {n}"), Some(c), json!({"query": q, "visit": k})));
            return;
        }
        let key = shift_key(*sh, w);
        let bad_lattice = key.contains(&99) || (!c.periodic && sh.is_some()) || sh.map_or(false, |v| (c.dim..3).any(|ax| v[ax] != 0.));
        if bad_lattice {
            rep.violations.push(Violation::new(prop, "c17.shift_off_lattice", format!("{source}: visit {k} of generator {q}: generator {j} with shift {sh:?} is not a lattice shift (period {w:?}, periodic = {})", c.periodic), Some(c), json!({"query": q, "visit": k})));
            continue;
        }
        if *sh == Some(DVec3::ZERO) {
            rep.violations.push(Violation::new(prop, "c17.shift_some_zero", format!("{source}: visit {k} of generator {q}: zero shift reported as Some(0) instead of None"), Some(c), json!({"query": q, "visit": k})));
        }
        if !seen.insert((*j, key)) {
            rep.violations.push(Violation::new(prop, "c17.visited_twice", format!("{source}: generator {q} visits (generator {j}, shift {key:?}) twice (second time at position {k})"), Some(c), json!({"query": q, "visit": k, "ngb": j, "shift": key})));
        }
        let h = pts[*j] + sh.unwrap_or(DVec3::ZERO);
        let d2 = h.distance_squared(g);
        let d = d2.sqrt();
        // rounding of d^2 when the coordinates carry an absolute error u*M
        let tol2 = K * s.u * (s.m + d) * d;
        if d2 < runmax - tol2 {
            rep.violations.push(Violation::new(
                prop,
                "c17.order",
                format!("{source}: generator {q}: visit {k} (generator {j}, shift {key:?}) is at squared distance {d2:e}, but visit {runmax_at} before it was at {runmax:e} (inversion {:e} > tolerance {tol2:e})", runmax - d2),
                Some(c),
                json!({"query": q, "visit": k, "d2": d2, "runmax": runmax}),
            ));
            // report one inversion per sequence
            break;
        }
        if d2 < runmax {
            rep.count("inversions_at_rounding_level", 1);
            rep.max("c17.inversion_over_tol", (runmax - d2) / tol2.max(1e-300));
        }
        if d2 > runmax {
            runmax = d2;
            runmax_at = k;
        }
    }
    if complete {
        let expect = n * all_shifts(c).len();
        rep.count("complete_sequences_checked", 1);
        if seen.len() != expect || seq.len() != expect {
            // name one missing pair
            let mut missing = None;
            'o: for j in 0..n {
                for sh in all_shifts(c) {
                    if !seen.contains(&(j, sh)) {
                        missing = Some((j, sh));
                        break 'o;
                    }
                }
            }
            rep.violations.push(Violation::new(prop, "c17.incomplete", format!("{source}: generator {q} visited {} candidates ({} distinct), expected {expect}; e.g. never visited: {missing:?}", seq.len(), seen.len()), Some(c), json!({"query": q, "visited": seq.len(), "expected": expect})));
        }
    }
}

pub fn one_c17(prop: &str, c: &Case, rep: &mut Report) {
    let (_, w) = c.norm_box();
    let n = c.n();
    let mut r = Rng::stream("C17query", &[c.hash()]);
    let nq = 5.min(n);
    let mut queries: Vec<usize> = (0..nq).map(|_| r.below(n)).collect();
    queries.push(0);
    queries.push(n - 1);
    queries.sort();
    queries.dedup();
    for &q in &queries {
        let seq = match guarded(|| verif::nn_sequence(&c.pts, q, w, dimn(c.dim), c.periodic, usize::MAX)) {
            Ok(s) => s,
            Err(p) => {
                rep.violations.push(panic_violation(prop, c, &p));
                continue;
            }
        };
        check_sequence(prop, c, q, &seq, true, true, "nn_sequence", rep);
    }
    // in situ: the candidates the real builder consumed (prefix of the sequence, after the generator itself)
    let cap = 400_000;
    match build_observed(c, 0, cap) {
        Err(p) => rep.violations.push(panic_violation(prop, c, &p)),
        Ok(b) => {
            if (b.trace.candidate_count as usize) <= cap {
                let mut per_cell: Vec<Vec<(usize, Option<DVec3>)>> = vec![vec![]; n];
                for e in &b.trace.candidates {
                    per_cell[e.cell].push((e.ngb, e.shift));
                }
                for (i, seq) in per_cell.iter().enumerate() {
                    if seq.is_empty() {
                        continue;
                    }
                    rep.count("in_situ_prefixes_checked", 1);
                    if seq.iter().any(|(j, sh)| *j == i && sh.is_none()) {
                        rep.violations.push(Violation::new(prop, "c17.self_visited_again", format!("in situ: the builder of cell {i} was handed the generator itself as a neighbour candidate"), Some(c), json!({"cell": i})));
                    }
                    check_sequence(prop, c, i, seq, false, false, "in situ", rep);
                }
            } else {
                rep.count("in_situ_trace_overflow", 1);
            }
        }
    }
    note_case(rep, c, n >= 2 || c.periodic);
}

pub fn c17(a: &Args, rep: &mut Report) {
    rep.rule = "cases = seeded inputs (uniform, lattices with many equidistant candidates, clusters, coplanar; all dimensionalities, box shapes and offsets, periodic or not); for up to 7 query generators the COMPLETE visit sequence of the production iterator is checked, plus the prefix consumed by every real cell build; distinct = distinct input hash; non-trivial = at least one candidate besides the generator itself".into();
    rep.assumptions = vec!["ordering tolerance on squared distances: 64 u (M + d) d (DESIGN 6/C17)".into()];
    let szs: Vec<usize> = if a.tier == "thorough" { vec![1, 2, 3, 5, 8, 27, 100, 400, 1000, 3000] } else { vec![1, 2, 3, 5, 8, 27, 100, 300] };
    let n = ncases(a, 6000, 30000);
    run_parallel(rep, n, budget(a, 100., 900.), |k, rep| {
        let o = GenOpts {
            sizes: &szs,
            ..Default::default()
        };
        let c = gen_case("C17", &a.tier, a.seed, k, &o);
        one_c17("C17", &c, rep);
    });
    // history: the visit order of a construction must not depend on the constructions made before it (a search tree or a
    // distance table cached between calls): the same raw positions are built one after the other on one thread with another
    // dimensionality / periodic flag each time (the unused coordinates differ from generator to generator, so that the
    // order of the distances is a different one in every dimensionality), forwards and backwards
    let nh = ncases(a, 60, 600);
    run_parallel(rep, nh, budget(a, 100., 900.), |k, rep| {
        let o = GenOpts {
            sizes: &[8, 27, 100, 300],
            families: &["uniform", "mildcluster", "gradient"],
            dims: &[3],
            mild_box: true,
            ..Default::default()
        };
        let base = gen_case("C17history", &a.tier, a.seed, k, &o);
        let mut order: Vec<(usize, bool)> = vec![(3, base.periodic), (2, base.periodic), (1, !base.periodic), (2, !base.periodic), (3, !base.periodic), (1, base.periodic)];
        if k % 2 == 1 {
            order.reverse();
        }
        for (dim, periodic) in order {
            let mut c = base.clone();
            c.dim = dim;
            c.periodic = periodic;
            c.origin = format!("{}/as{}d{}", base.origin, dim, if periodic { "p" } else { "" });
            if c.validity().is_err() {
                continue;
            }
            one_c17("C17", &c, rep);
            rep.count("history_constructions_checked", 1);
        }
    });
    large_cases(a, rep, "C17", &[3000, 20000, 70000, 20000], &[3000, 20000, 70000, 140000, 270000], |c, rep| one_c17("C17", c, rep));
    zoom_cells(a, rep, "C17", false, 400, 6000, |c, rep| one_c17("C17", c, rep));
}

// ------------------------------------------------------------------------------------------------
// C16

fn min_image_dist(c: &Case, p: DVec3, g: DVec3) -> f64 {
    let (_, w) = c.norm_box();
    let mut best = f64::INFINITY;
    for sh in all_shifts(c) {
        best = best.min((p + shift_vec(sh, w)).distance(g));
    }
    best
}

pub fn one_c16(prop: &str, c: &Case, rep: &mut Report) {
    let cap = 400_000;
    let b = match build_observed(c, 0, cap) {
        Ok(b) => b,
        Err(p) => {
            rep.violations.push(panic_violation(prop, c, &p));
            note_case(rep, c, false);
            return;
        }
    };
    let s = scales(c);
    let (_, w) = c.norm_box();
    let n = c.n();
    let pts = c.proj_pts();
    let rd = geom::reference(c);
    let tabs = face_tables(&b.nonsym, n, w);
    let trace_ok = (b.trace.candidate_count as usize) <= cap;
    let mut visited: Vec<HashSet<(usize, [i8; 3])>> = vec![HashSet::new(); n];
    if trace_ok {
        for e in &b.trace.candidates {
            // the last recorded candidate of a cell is the one that terminated the loop (not clipped), unless the
            // iterator was exhausted; it counts as examined either way
            visited[e.cell].insert((e.ngb, shift_key(e.shift, w)));
        }
    }
    for i in 0..n {
        let Some(cell) = b.vi.get_cell_at(i) else { continue };
        let g = pts[i];
        let rs = b.v.cells()[i].safety_radius();
        let t = cell_tol(cell, &s);
        rep.count("cells_checked", 1);
        if !(rs.is_finite() && rs > 0.) {
            rep.violations.push(Violation::new(prop, "c16.nonfinite", format!("cell {i}: safety radius {rs}"), Some(c), json!({"cell": i})));
            continue;
        }
        // (a) at least twice the distance to the farthest point of the cell (active subspace)
        let far_impl = cell.vertices.iter().map(|v| project(v.loc, c.dim).distance(g)).fold(0., f64::max);
        rep.max("c16.two_rmax_over_rs", 2. * far_impl / rs);
        if !(rs >= 2. * far_impl * (1. - 4. * s.u)) {
            rep.violations.push(Violation::new(prop, "c16.below_farthest_vertex", format!("cell {i}: safety radius {rs:e} < 2 x distance to its farthest vertex {:e}", far_impl), Some(c), json!({"cell": i, "rs": rs, "far": far_impl})));
        }
        if let (Some(rsum), false) = (&rd.sums[i], t.ill) {
            let far_ref = rsum.verts.iter().map(|v| project(*v, c.dim).distance(g)).fold(0., f64::max);
            let slack = 2. * (16. * t.max_dv + 64. * rd.setup.eps);
            rep.count("cells_vs_reference_checked", 1);
            if !(rs >= 2. * far_ref * (1. - 4. * s.u) - slack) {
                rep.violations.push(Violation::new(prop, "c16.below_reference_extent", format!("cell {i}: safety radius {rs:e} < 2 x distance {:e} from the generator to the farthest point of the brute-force cell", far_ref), Some(c), json!({"cell": i, "rs": rs, "far_ref": far_ref})));
            }
        }
        // (b) every neighbour with a non-negligible face lies within the safety radius
        for (k, f) in &tabs[i] {
            let Key::Gen(j, sh) = *k else { continue };
            if sh.contains(&99) || f.area <= s.athr {
                continue;
            }
            let d = (pts[j] + shift_vec(sh, w)).distance(g);
            rep.count("neighbours_checked", 1);
            // in exact arithmetic rs = 2 |vertex - g| >= |h - g|, with equality when the farthest vertex lies on the
            // segment g-h (always in 1D): allow the position error of the vertices
            let slack = 2. * (4. * t.max_dv + K * s.u * s.m);
            rep.max("c16.neighbour_excess_over_slack", (d - rs) / slack);
            if !(rs + slack >= d) {
                rep.violations.push(Violation::new(prop, "c16.neighbour_beyond_radius", format!("cell {i}: neighbour {j} (shift {sh:?}) with a face of area {:e} is at distance {d:e} > safety radius {rs:e}", f.area), Some(c), json!({"cell": i, "ngb": j})));
            }
        }
        // (c) in situ: no unvisited site inside the final safety radius
        if trace_ok {
            let mut worst: Option<(usize, [i8; 3], f64)> = None;
            for j in 0..n {
                for sh in all_shifts(c) {
                    if (j == i && sh == [0, 0, 0]) || visited[i].contains(&(j, sh)) {
                        continue;
                    }
                    let d = (pts[j] + shift_vec(sh, w)).distance(g);
                    let tol = K * s.u * (s.m + d);
                    if d < rs - tol && worst.map_or(true, |x| d < x.2) {
                        worst = Some((j, sh, d));
                    }
                }
            }
            rep.count("terminations_checked", 1);
            if let Some((j, sh, d)) = worst {
                rep.violations.push(Violation::new(prop, "c16.terminated_early", format!("cell {i}: construction stopped although generator {j} (shift {sh:?}) at distance {d:e} < final safety radius {rs:e} was never examined"), Some(c), json!({"cell": i, "ngb": j, "shift": sh, "dist": d, "rs": rs})));
            }
        }
    }

    // (d) metamorphic histories: adding generators beyond the safety radius leaves the cell unchanged
    if c.mask.is_none() && n >= 1 {
        let mut r = Rng::stream("C16far", &[c.hash()]);
        let ncell = 4.min(n);
        for _ in 0..ncell {
            let i = r.below(n);
            let Some(cell) = b.vi.get_cell_at(i) else { continue };
            let t0 = cell_tol(cell, &s);
            if t0.ill {
                continue;
            }
            let rs = b.v.cells()[i].safety_radius();
            let g = pts[i];
            for &kadd in &[1usize, 5, 50] {
                let mut extra: Vec<DVec3> = vec![];
                let mut tries = 0;
                while extra.len() < kadd && tries < 60 * kadd {
                    tries += 1;
                    let mut p = c.anchor + DVec3::new(r.f(), r.f(), r.f()) * c.width;
                    // unused coordinates of the added generators are arbitrary: give them something
                    for ax in c.dim..3 {
                        p[ax] = c.anchor[ax];
                    }
                    if min_image_dist(c, project(p, c.dim), g) > 1.001 * rs {
                        extra.push(p);
                    }
                }
                if extra.len() < kadd {
                    rep.count("histories_without_room_outside_safety_ball", 1);
                    continue;
                }
                let mut c2 = c.clone();
                c2.pts.extend(extra.iter().copied());
                if c2.validity().is_err() {
                    continue;
                }
                let mut mask = vec![false; c2.n()];
                mask[i] = true;
                c2.mask = Some(mask);
                c2.origin = format!("{}+{}far(cell{i})", c.origin, kadd);
                match build_observed(&c2, 0, 0) {
                    Err(p) => rep.violations.push(panic_violation(prop, &c2, &p)),
                    Ok(b2) => {
                        rep.count("far_generator_histories_checked", 1);
                        let t2 = face_tables(&b2.nonsym, c2.n(), w);
                        let (x, y) = (&b.v.cells()[i], &b2.v.cells()[i]);
                        let tv = 2. * t0.tol_v;
                        let dm = (x.centroid() * x.volume() - y.centroid() * y.volume()).abs().max_element();
                        let mut changed = !((x.volume() - y.volume()).abs() <= tv) || !(dm <= 2. * t0.tol_m);
                        let mut why = format!("volume {:e} -> {:e}", x.volume(), y.volume());
                        let keys: BTreeSet<Key> = tabs[i].keys().chain(t2[i].keys()).copied().collect();
                        for k in keys {
                            let (a0, a1) = (tabs[i].get(&k).map_or(0., |f| f.area), t2[i].get(&k).map_or(0., |f| f.area));
                            if !((a0 - a1).abs() <= 2. * t0.tol_a) && a0.max(a1) > s.athr {
                                changed = true;
                                why = format!("face {k:?}: area {a0:e} -> {a1:e}");
                            }
                        }
                        if changed {
                            rep.violations.push(Violation::new(prop, "c16.far_generators_change_cell", format!("cell {i} (safety radius {rs:e}) changed after adding {kadd} generators, all farther than 1.001 x its safety radius: {why}"), Some(&c2), json!({"cell": i, "added": kadd, "base_case": c.to_json()})));
                        }
                    }
                }
            }
        }
    }
    note_case(rep, c, true);
}

pub fn c16(a: &Args, rep: &mut Report) {
    rep.rule = "cases = seeded inputs of the conditioned families (all dimensionalities, periodic or not, one quarter partial); every constructed cell: bound vs own and reference vertices, neighbour distances, in-situ termination check on the candidate trace; 4 cells per input x {1,5,50} far generators added (metamorphic); distinct = distinct input hash; non-trivial = every case (each has at least one constructed cell or is counted)".into();
    rep.assumptions = vec!["reference clipper for the farthest point of the true cell".into(), "termination tolerance 64 u (M + d)".into()];
    let szs: Vec<usize> = if a.tier == "thorough" { vec![1, 2, 3, 4, 5, 8, 13, 27, 50, 100, 200, 400] } else { vec![1, 2, 3, 4, 5, 8, 13, 27, 50, 100] };
    let n = ncases(a, 10000, 80000);
    run_parallel(rep, n, budget(a, 100., 900.), |k, rep| {
        let o = GenOpts {
            sizes: &szs,
            ..Default::default()
        };
        let mut c = gen_case("C16", &a.tier, a.seed, k, &o);
        with_random_mask("C16mask", a, k, &mut c, 4);
        one_c16("C16", &c, rep);
    });
    zoom_cells(a, rep, "C16", false, 400, 6000, |c, rep| crate::p_zoom::one_zoom("C16", c, rep));
}
