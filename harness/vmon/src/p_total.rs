//! C05: construction is total and robust on boundary and degenerate inputs.

use crate::common::*;
use crate::geom;
use crate::p_exact::check_exact_log;
use crate::props::*;
use crate::Args;
use serde_json::json;
use vcore::case::{corpus, gen_case, gen_family_case, Case, GenOpts};
use vcore::report::{Report, Violation};

pub const EXACT_CAP: usize = 4000;

/// All monitors of C05 on one input. `metric` = also run the metric output oracles (C01-C04); the membership
/// oracle and the structural checks always run.
pub fn one_c05(prop: &str, c: &Case, rep: &mut Report) {
    if let Err(why) = c.validity() {
        rep.count("invalid_inputs_skipped", 1);
        let _ = why;
        return;
    }
    let start = std::time::Instant::now();
    let b = match build_observed(c, EXACT_CAP, 0) {
        Ok(b) => b,
        Err(p) => {
            rep.violations.push(panic_violation(prop, c, &p));
            rep.count("builds_panicked", 1);
            note_case(rep, c, true);
            return;
        }
    };
    let el = start.elapsed().as_secs_f64();
    rep.max_at("c05.build_seconds", el, || c.origin.clone());
    // direct route must not panic either
    if let Err(p) = guarded(|| build_direct(c)) {
        rep.violations.push(panic_violation(prop, c, &p));
    }
    // finite outputs
    let mut finite = true;
    for (i, cell) in b.v.cells().iter().enumerate() {
        if !(cell.volume().is_finite() && cell.centroid().is_finite() && cell.safety_radius().is_finite()) {
            finite = false;
            rep.violations.push(Violation::new(prop, "c05.nonfinite_cell", format!("cell {i}: volume {} centroid {:?} safety radius {}", cell.volume(), cell.centroid(), cell.safety_radius()), Some(c), json!({"cell": i})));
            break;
        }
    }
    for (fi, f) in b.v.faces().iter().enumerate() {
        if !(f.area().is_finite() && f.centroid().is_finite() && f.normal().is_finite()) {
            finite = false;
            rep.violations.push(Violation::new(prop, "c05.nonfinite_face", format!("face #{fi}: area {} centroid {:?}", f.area(), f.centroid()), Some(c), json!({"face": fi})));
            break;
        }
    }
    // exact tie decisions against the integer oracle, grid domain
    let n_exact = check_exact_log(prop, c, &b.trace, rep);
    if finite {
        let rd = geom::reference(c);
        geom::check_c01(prop, c, &b, &rd, rep);
        geom::check_c02(prop, c, &b, Some(&rd), rep);
        geom::check_c03(prop, c, &b, rep);
        geom::check_c04(prop, c, &b, &b.v, rep);
    }
    rep.count("builds_completed", 1);
    note_case(rep, c, n_exact > 0 || c.n() >= 1);
    if b.trace.exact_count > 0 {
        rep.count("inputs_with_exact_decisions", 1);
    }
}

const TIE_RICH: [&str; 6] = ["lattice", "blattice", "clattice", "coplanar", "tiny", "lattice"];

pub fn c05(a: &Args, rep: &mut Report) {
    rep.rule = "cases = (1) seeded inputs of the tie-rich conditioned families (exact lattices, lattices on the box boundary, centred lattices, coplanar/collinear sets, 1-5 generators) x dimensionality x periodic flag x box shapes, (2) the fixed hostile corpus (near-lattices, generators on walls/edges/corners, co-spherical sets, clusters, slabs, near-coincident pairs, tiny and far-offset boxes) with a per-input baseline, (3) thorough: seeded exploration of the hostile families matched against class-level known findings; each input is built through both routes under panic capture, its outputs go through the C01-C04 oracles and every logged exact decision is re-evaluated by the integer oracle; distinct = distinct input hash; non-trivial = a valid input whose build was attempted".into();
    rep.assumptions = vec![
        "integer oracle vcore::wide".into(),
        "known_findings.json lists the degenerate inputs / classes on which the pinned tree is known to fail (DESIGN section 7)".into(),
        "release build; the debug-assertion build runs the same workload as the 'relcheck' leg".into(),
    ];
    if is_miri_leg(a) {
        // the exact path including the big-integer back end under the UB interpreter
        for k in 0..2 {
            let c = miri_case(a.seed, k);
            one_c05("C05", &c, rep);
            rep.count("miri_inputs_run", 1);
        }
        return;
    }
    let thorough = a.tier == "thorough";
    // exploration aid: VERIF_C05_PART=tie|corpus|hostile runs one part only
    let part = std::env::var("VERIF_C05_PART").ok();
    let on = |p: &str| part.as_deref().map_or(true, |x| x == p);
    let szs: Vec<usize> = if thorough { vec![1, 2, 3, 4, 5, 8, 13, 27, 50, 100, 200, 400] } else { vec![1, 2, 3, 4, 5, 8, 13, 27, 50, 100] };
    // (1) tie-rich conditioned families, seeded
    let n = if on("tie") { ncases(a, 3000, 60000) } else { 0 };
    run_parallel(rep, n, budget(a, 100., 900.), |k, rep| {
        let o = GenOpts {
            sizes: &szs,
            families: &TIE_RICH,
            ..Default::default()
        };
        let mut c = gen_case("C05", &a.tier, a.seed, k, &o);
        with_random_mask("C05mask", a, k, &mut c, 6);
        one_c05("C05", &c, rep);
    });
    let tie_calls = rep.counters.get("exact_decisions_total").copied().unwrap_or(0);
    // (1b) clustered sets of the conditioned domain (the property names them): clusters down to 1e-3 box widths, density
    // gradients over several decades, a centre inside a shell, and zoom inputs (a compact group with a spacing of 1e-8 .. 1e-4
    // box widths inside graded shells: cells that see more than a thousand candidates without being clipped by them; judged
    // by the local reference of p_zoom). Clusters below 1e-3 widths without shells are in the hostile corpus (finding F5).
    if on("tie") && !is_miri_leg(a) {
        let cszs: Vec<usize> = if thorough { vec![27, 50, 100, 200, 400, 1000] } else { vec![27, 50, 100, 200] };
        let m = ncases(a, 600, 12000);
        run_parallel(rep, m, budget(a, 100., 900.), |k, rep| {
            let o = GenOpts {
                sizes: &cszs,
                families: &["mildcluster", "gradient", "star", "mildcluster"],
                ..Default::default()
            };
            let mut c = gen_case("C05clustered", &a.tier, a.seed, k, &o);
            with_random_mask("C05mask", a, k, &mut c, 6);
            one_c05("C05", &c, rep);
            rep.count("clustered_inputs_run", 1);
        });
        zoom_cells(a, rep, "C05", false, 200, 3000, |c, rep| crate::p_zoom::one_zoom("C05", c, rep));
    }
    // (2) fixed corpus
    let cases = if on("corpus") { corpus(!thorough) } else { vec![] };
    let nc = cases.len() as u64;
    run_parallel(rep, nc, budget(a, 200., 1500.), |k, rep| {
        one_c05("C05", &cases[k as usize], rep);
        rep.count("corpus_inputs_run", 1);
    });
    // (3) thorough: seeded hostile exploration
    if thorough && on("hostile") {
        let fams = ["nearlattice", "walls", "cluster", "cosphere", "slabwalls", "nearpairs"];
        let m = ncases(a, 0, 6000);
        run_parallel(rep, m, budget(a, 0., 900.), |k, rep| {
            let fam = fams[(k % fams.len() as u64) as usize];
            let dim = [3, 3, 2, 1][(k / 6 % 4) as usize];
            let per = k / 24 % 2 == 0;
            let nn = [5, 8, 27, 64, 100][(k / 48 % 5) as usize];
            let c = gen_family_case("C05hostile", fam, a.seed, k, dim, per, nn);
            one_c05("C05", &c, rep);
            rep.count("hostile_exploration_inputs_run", 1);
        });
    }
    if tie_calls == 0 && on("tie") {
        // the tie-rich workload did not reach the exact path: the run does not show what it claims
        println!("BROKEN: the tie-rich workload made no exact predicate call (hook not reached?)");
        std::process::exit(2);
    }
}

/// `vmon C05corpus`: run the fixed corpus and dump the outcome of every input (used to (re)generate the
/// per-input baseline and the known findings; never run by a registered check).
pub fn corpus_dump(a: &Args) {
    let cases = corpus(false);
    let slots: Vec<std::sync::Mutex<Option<serde_json::Value>>> = cases.iter().map(|_| std::sync::Mutex::new(None)).collect();
    let mut dummy = Report::new("C05", "baseline", 0);
    run_parallel(&mut dummy, cases.len() as u64, 1e9, |k, _| {
        let c = &cases[k as usize];
        let mut rep = Report::new("C05", "baseline", 0);
        one_c05("C05", c, &mut rep);
        let mut sigs: Vec<String> = rep.violations.iter().map(|v| v.signature.clone()).collect();
        sigs.sort();
        sigs.dedup();
        *slots[k as usize].lock().unwrap() = Some(json!({"hash": format!("{:016x}", c.hash()), "origin": c.origin, "family": c.family, "dim": c.dim, "periodic": c.periodic, "n": c.n(), "signatures": sigs,
            "first": rep.violations.first().map(|v| v.what.clone())}));
    });
    let out: Vec<serde_json::Value> = slots.into_iter().map(|m| m.into_inner().unwrap().unwrap()).collect();
    let path = a.verif_dir.join("corpus").join(if cfg!(debug_assertions) { "baseline.relcheck.json" } else { "baseline.json" });
    let _ = std::fs::create_dir_all(path.parent().unwrap());
    std::fs::write(&path, serde_json::to_string_pretty(&json!({"inputs": out})).unwrap()).expect("write baseline");
    let failing = out.iter().filter(|e| !e["signatures"].as_array().unwrap().is_empty()).count();
    println!("corpus: {} inputs, {} with at least one failure signature -> {}", out.len(), failing, path.display());
}

/// `vmon Xsurvey --scale k`: failure rates of the conditioned generator by (family, box class) - used to delimit the
/// conditioned domain; never run by a registered check.
pub fn survey(a: &Args) {
    use std::collections::BTreeMap;
    use std::sync::Mutex;
    let n = ncases(a, 20000, 200000);
    let table: Mutex<BTreeMap<String, (u64, u64, String)>> = Mutex::new(BTreeMap::new());
    let mut dummy = Report::new("C05", "survey", a.seed);
    let szs: Vec<usize> = std::env::var("VERIF_SURVEY_SIZES").ok().map(|s| s.split(',').filter_map(|x| x.parse().ok()).collect()).unwrap_or_else(|| vec![1usize, 2, 3, 5, 8, 13, 27, 50, 100, 200]);
    run_parallel(&mut dummy, n, 1e9, |k, _| {
        let o = GenOpts {
            sizes: &szs,
            ..Default::default()
        };
        let c = gen_case("survey", &a.tier, a.seed, k, &o);
        let mut rep = Report::new("C05", "survey", 0);
        one_c05("C05", &c, &mut rep);
        let rel = (c.anchor / c.width).abs().max_element();
        let offc = if rel > 2e4 { "off1e5" } else if rel > 500. { "off1e3" } else { "offsmall" };
        let wmax = c.width.max_element();
        let wmin = c.width.min_element();
        let asp = if wmax / wmin > 1000. { "asp1e4" } else if wmax / wmin > 50. { "asp100" } else if wmax / wmin > 2. { "asp8" } else { "cubic" };
        let sc = if wmax < 1e-6 { "tiny" } else if wmax > 1e8 { "huge" } else { "mid" };
        let key = format!("{:12} {:8} {:7} {:5} d{} p{}", c.family, offc, asp, sc, c.dim, c.periodic as u8);
        let mut t = table.lock().unwrap();
        let e = t.entry(key).or_insert((0, 0, String::new()));
        e.0 += 1;
        if !rep.violations.is_empty() {
            e.1 += 1;
            if e.2.is_empty() {
                e.2 = format!("{} {}", rep.violations[0].signature, c.origin);
            }
        }
    });
    let t = table.into_inner().unwrap();
    let mut fam_tot: BTreeMap<String, (u64, u64)> = BTreeMap::new();
    for (k, (n, f, ex)) in &t {
        if *f > 0 {
            println!("{k}  {f}/{n}   {ex}");
        }
        let e = fam_tot.entry(k[..21].to_string()).or_insert((0, 0));
        e.0 += n;
        e.1 += f;
    }
    println!("--- by family / offset class");
    for (k, (n, f)) in fam_tot {
        println!("{k}  {f}/{n}");
    }
}
