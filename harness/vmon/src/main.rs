//! vmon - runtime monitors for the properties C01..C20 of meshless_voronoi.
//!
//! usage: vmon <ID> [--tier quick|thorough] [--seed N] [--verif-dir DIR] [--replay FILE] [--leg NAME]

mod common;
mod geom;
mod p_dim;
mod p_geo;
mod p_nn;
mod p_par;
mod p_poly;
mod p_pred;
mod p_exact;
mod p_struct;
mod p_total;
mod p_zoom;
mod props;

use std::path::PathBuf;
use vcore::report::{KnownFindings, Report};

pub struct Args {
    pub id: String,
    pub tier: String,
    pub seed: u64,
    pub verif_dir: PathBuf,
    /// where evidence/ and replay/ are written (default: verif_dir)
    pub out_dir: Option<PathBuf>,
    pub replay: Option<PathBuf>,
    pub leg: Option<String>,
    pub scale: f64,
}

// allocation budget (vcore::alloc): a runaway allocation of the code under test aborts this process with a marker line
// that the driver turns into a verdict; not under Miri (the interpreter has its own memory accounting)
#[cfg(not(miri))]
#[global_allocator]
static ALLOC: vcore::alloc::Budget = vcore::alloc::Budget;

fn main() {
    vcore::alloc::init();
    let mut a = Args {
        id: String::new(),
        tier: std::env::var("VERIF_TIER").unwrap_or_else(|_| "quick".into()),
        seed: std::env::var("VERIF_SEED").ok().and_then(|s| s.parse().ok()).unwrap_or(1),
        verif_dir: PathBuf::from("/verif"),
        out_dir: None,
        replay: None,
        leg: None,
        scale: std::env::var("VERIF_SCALE").ok().and_then(|s| s.parse().ok()).unwrap_or(1.0),
    };
    let mut it = std::env::args().skip(1);
    while let Some(x) = it.next() {
        match x.as_str() {
            "--tier" => a.tier = it.next().expect("--tier value"),
            "--seed" => a.seed = it.next().expect("--seed value").parse().expect("seed"),
            "--verif-dir" => a.verif_dir = PathBuf::from(it.next().expect("--verif-dir value")),
            "--out-dir" => a.out_dir = Some(PathBuf::from(it.next().expect("--out-dir value"))),
            "--replay" => a.replay = Some(PathBuf::from(it.next().expect("--replay value"))),
            "--leg" => a.leg = Some(it.next().expect("--leg value")),
            "--scale" => a.scale = it.next().expect("--scale value").parse().expect("scale"),
            s if a.id.is_empty() => a.id = s.to_string(),
            s => {
                eprintln!("unknown argument {s}");
                std::process::exit(2);
            }
        }
    }
    if a.id.is_empty() {
        eprintln!("usage: vmon <ID> [--tier quick|thorough] [--seed N] [--verif-dir DIR] [--replay FILE] [--leg NAME]");
        std::process::exit(2);
    }
    common::install_panic_hook();
    // Miri legs never match known findings: skip the (slow under the interpreter) JSON load
    // Miri legs only need the class-level entries (tools/known_extra.json, a few lines): parsing the full file with
    // its hundreds of per-input entries is slow under the interpreter
    let known = if a.leg.as_deref().map_or(false, |l| l.starts_with("miri")) {
        KnownFindings::load(&a.verif_dir.join("tools").join("known_extra.json"))
    } else {
        KnownFindings::load(&a.verif_dir.join("known_findings.json"))
    };
    let mut report = Report::new(&a.id, &a.tier, a.seed);
    let out = a.out_dir.clone().unwrap_or_else(|| a.verif_dir.clone());
    if let Some(path) = a.replay.clone() {
        let code = props::replay(&a, &path, &mut report);
        std::process::exit(code);
    }
    props::run(&a, &mut report);
    report.extra.insert(
        "allocation_budget".into(),
        serde_json::json!({"per_thread_budget_bytes": vcore::alloc::limit_bytes(), "largest_live_bytes_of_one_thread": vcore::alloc::peak_bytes()}),
    );
    if a.leg.is_some() {
        // a sanitizer / auxiliary leg: print the verdict lines, but leave the evidence file to the main leg
        let code = report.finish_leg(&out, &known, a.leg.as_deref().unwrap());
        std::process::exit(code);
    }
    let code = report.finish(&out, &known);
    std::process::exit(code);
}
