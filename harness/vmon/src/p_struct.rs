//! C07 (partial = full restricted to the mask), C12 (cell-face index structure), C13 (integrator route = direct
//! route): differential and structural monitors at the quiescent point after a build.

use crate::common::*;
use crate::props::*;
use crate::Args;
use glam::DVec3;
use meshless_voronoi::integrals::{AreaCentroidIntegral, VolumeCentroidIntegral};
use meshless_voronoi::Voronoi;
use serde_json::json;
use std::collections::{BTreeMap, BTreeSet};
use vcore::case::{gen_case, gen_mask, Case, GenOpts};
use vcore::refcell::Key;
use vcore::report::{Report, Violation};
use vcore::rng::Rng;

/// The faces a cell lists, keyed from the point of view of that cell.
pub fn listed_keys(v: &Voronoi, i: usize, w: DVec3) -> BTreeMap<Key, IFace> {
    let mut t = BTreeMap::new();
    for f in v.cells()[i].faces(v) {
        let key = if f.left() == i {
            match f.right() {
                Some(r) => Key::Gen(r, shift_key(f.shift(), w)),
                None => Key::Wall(wall_of_normal(f.normal()).unwrap_or(200)),
            }
        } else {
            Key::Gen(f.left(), [0, 0, 0])
        };
        let e = t.entry(key).or_insert(IFace {
            area: 0.,
            centroid: DVec3::ZERO,
            count: 0,
        });
        e.area += f.area();
        e.centroid = f.centroid();
        e.count += 1;
    }
    t
}

fn full_case(c: &Case) -> Case {
    let mut f = c.clone();
    f.mask = None;
    f
}

// ------------------------------------------------------------------------------------------------
// C07

pub fn one_c07(prop: &str, c: &Case, rep: &mut Report) {
    let Some(mask) = c.mask.clone() else {
        eprintln!("C07 needs a case with a mask");
        return;
    };
    let fc = full_case(c);
    let r = guarded(|| {
        let vi_full = build_integrator(&fc);
        let full = build_direct(&fc);
        let part = build_direct(c);
        let vi_part = build_integrator(c);
        let part2 = Voronoi::from(&vi_part);
        (vi_full, full, part, vi_part, part2)
    });
    let (vi_full, full, part, vi_part, part2) = match r {
        Ok(x) => x,
        Err(p) => {
            rep.violations.push(panic_violation(prop, c, &p));
            note_case(rep, c, false);
            return;
        }
    };
    let s = scales(c);
    let (_, w) = c.norm_box();
    let n = c.n();
    let tols: Vec<CellTol> = (0..n).map(|i| cell_tol(vi_full.get_cell_at(i).expect("full build"), &s)).collect();
    let nsel = mask.iter().filter(|&&b| b).count();
    for (route, pv) in [("build_partial", &part), ("integrator", &part2)] {
        if pv.cells().len() != n {
            rep.violations.push(Violation::new(prop, "c07.cell_count", format!("{route}: {} cells for {n} generators", pv.cells().len()), Some(c), json!({})));
            continue;
        }
        for i in 0..n {
            let (cf, cp) = (&full.cells()[i], &pv.cells()[i]);
            if mask[i] {
                rep.count("selected_cells_compared", 1);
                let same = cf.volume().to_bits() == cp.volume().to_bits()
                    && cf.safety_radius().to_bits() == cp.safety_radius().to_bits()
                    && (0..3).all(|k| cf.centroid()[k].to_bits() == cp.centroid()[k].to_bits() && cf.loc()[k].to_bits() == cp.loc()[k].to_bits());
                if !same {
                    rep.violations.push(Violation::new(
                        prop,
                        "c07.cell_not_bitwise",
                        format!("{route}: selected cell {i} differs from the full build: volume {:e} vs {:e}, centroid {:?} vs {:?}, safety radius {:e} vs {:e}", cp.volume(), cf.volume(), cp.centroid(), cf.centroid(), cp.safety_radius(), cf.safety_radius()),
                        Some(c),
                        json!({"cell": i, "route": route}),
                    ));
                }
                // face sets
                let kf = listed_keys(&full, i, w);
                let kp = listed_keys(pv, i, w);
                let mut keys: BTreeSet<Key> = kf.keys().copied().collect();
                keys.extend(kp.keys().copied());
                for k in keys {
                    let (a, b) = (kf.get(&k), kp.get(&k));
                    let (af, ap) = (a.map_or(0., |x| x.area), b.map_or(0., |x| x.area));
                    let other_tol = match k {
                        Key::Gen(j, _) => tols[j].tol_a,
                        _ => 0.,
                    };
                    let tol = tols[i].tol_a + other_tol;
                    rep.count("faces_compared", 1);
                    if let Some(b) = b {
                        if b.count != 1 {
                            rep.violations.push(Violation::new(prop, "c07.face_duplicate", format!("{route}: cell {i} lists face {k:?} {} times", b.count), Some(c), json!({"cell": i, "route": route})));
                        }
                    }
                    if a.is_none() || b.is_none() {
                        if af.max(ap) > s.athr {
                            let kind = if b.is_none() { "c07.face_missing" } else { "c07.face_spurious" };
                            rep.violations.push(Violation::new(prop, kind, format!("{route}: selected cell {i}: face {k:?} full area {af:e}, partial area {ap:e}"), Some(c), json!({"cell": i, "route": route, "key": format!("{k:?}")})));
                        } else {
                            rep.count("negligible_face_key_mismatch", 1);
                        }
                        continue;
                    }
                    let ill = tols[i].ill || matches!(k, Key::Gen(j, _) if tols[j].ill);
                    if ill {
                        rep.count("faces_ill_conditioned_skipped", 1);
                        continue;
                    }
                    rep.max("c07.dA_over_tol", (af - ap).abs() / tol);
                    if !((af - ap).abs() <= tol) {
                        rep.violations.push(Violation::new(prop, "c07.face_area", format!("{route}: selected cell {i}: face {k:?} area {ap:e} vs full {af:e} (tol {tol:e})"), Some(c), json!({"cell": i, "route": route})));
                    }
                }
            } else {
                rep.count("unselected_cells_checked", 1);
                if !(cp.volume() == 0. && cp.centroid() == DVec3::ZERO) {
                    rep.violations.push(Violation::new(prop, "c07.unselected_nonzero", format!("{route}: unselected cell {i} reports volume {:e}, centroid {:?}", cp.volume(), cp.centroid()), Some(c), json!({"cell": i, "route": route})));
                }
            }
        }
        // face book-keeping
        let mut seen: BTreeMap<(usize, usize, [i8; 3]), usize> = BTreeMap::new();
        for (fi, f) in pv.faces().iter().enumerate() {
            let l = f.left();
            if l >= n || !mask[l] {
                rep.violations.push(Violation::new(prop, "c07.unselected_left", format!("{route}: face #{fi} has the unselected cell {l} on its left (right {:?})", f.right()), Some(c), json!({"face": fi, "route": route})));
                continue;
            }
            if let Some(r) = f.right() {
                *seen.entry((l, r, shift_key(f.shift(), w))).or_insert(0) += 1;
            }
        }
        bookkeeping(prop, route, c, &mask, &seen, rep);
        // selected / unselected pairs adjacent in the full build: exactly one face, selected on the left
        for i in 0..n {
            if !mask[i] {
                continue;
            }
            for (k, f) in listed_keys(&full, i, w) {
                let Key::Gen(j, sh) = k else { continue };
                if mask[j] || f.area <= s.athr {
                    continue;
                }
                rep.count("mixed_pairs_checked", 1);
                let cnt = seen.get(&(i, j, sh)).copied().unwrap_or(0);
                let rev = seen.get(&(j, i, [-sh[0], -sh[1], -sh[2]])).copied().unwrap_or(0);
                if cnt != 1 || rev != 0 {
                    rep.violations.push(Violation::new(prop, "c07.mixed_face", format!("{route}: face between selected {i} and unselected {j} (shift {sh:?}, area {:e}) is stored {cnt} times with the selected cell on the left and {rev} times reversed", f.area), Some(c), json!({"left": i, "right": j, "route": route})));
                }
            }
        }
    }
    // the symmetric face integrals of the partial integrator obey the same book-keeping rule
    {
        let route = "compute_face_integrals_sym";
        let sym = vi_part.compute_face_integrals_sym::<AreaCentroidIntegral>();
        let mut seen: BTreeMap<(usize, usize, [i8; 3]), usize> = BTreeMap::new();
        for f in &sym {
            let l = f.left();
            if l >= n || !mask[l] {
                rep.violations.push(Violation::new(prop, "c07.unselected_left", format!("{route}: a face has the unselected cell {l} on its left (right {:?})", f.right()), Some(c), json!({"route": route})));
                continue;
            }
            if let Some(r) = f.right() {
                *seen.entry((l, r, shift_key(f.shift(), w))).or_insert(0) += 1;
            }
        }
        bookkeeping(prop, route, c, &mask, &seen, rep);
        for i in 0..n {
            if !mask[i] {
                continue;
            }
            for (k, f) in listed_keys(&full, i, w) {
                let Key::Gen(j, sh) = k else { continue };
                if f.area <= s.athr {
                    continue;
                }
                // a face towards an unselected cell: once, from the selected side; between two selected cells
                // without shift: once in total; with shift: once from each side
                let cnt = seen.get(&(i, j, sh)).copied().unwrap_or(0);
                let rev = seen.get(&(j, i, [-sh[0], -sh[1], -sh[2]])).copied().unwrap_or(0);
                let ok = if !mask[j] { cnt == 1 && rev == 0 } else if sh == [0, 0, 0] { cnt + rev == 1 } else { cnt == 1 };
                rep.count("sym_integral_faces_checked", 1);
                if !ok {
                    rep.violations.push(Violation::new(prop, "c07.sym_integral_face", format!("{route}: face between selected cell {i} and {} cell {j} (shift {sh:?}, area {:e}) is reported {cnt} times from {i} and {rev} times from {j}", if mask[j] { "selected" } else { "unselected" }, f.area), Some(c), json!({"left": i, "right": j, "route": route})));
                }
            }
        }
    }
    for i in 0..n {
        if vi_part.get_cell_at(i).is_some() != mask[i] {
            rep.violations.push(Violation::new(prop, "c07.get_cell_at", format!("get_cell_at({i}) is {} but mask[{i}] = {}", if mask[i] { "None" } else { "Some" }, mask[i]), Some(c), json!({"cell": i})));
        }
    }
    // a partial construction is a function of its arguments only: repeat it after partial constructions of the SAME
    // positions with another dimensionality / periodic flag / mask on the same thread (every 8th input)
    if c.hash() % 8 == 0 && c.n() <= 2000 {
        let other_dim = if c.dim == 3 { 2 } else { 3 };
        let mut v1 = c.clone();
        v1.dim = other_dim;
        let mut v2 = c.clone();
        v2.periodic = !c.periodic;
        let mut v3 = c.clone();
        v3.mask = Some(mask.iter().map(|b| !b).collect());
        let d0 = digest_voronoi(&part).0;
        let again = guarded(|| {
            let mut out = vec![];
            // an unrelated partial construction first, so that whatever state a previous call left behind belongs to
            // other positions; then the variant; then the original again
            let evict = Case {
                family: "evict".into(),
                dim: 3,
                periodic: false,
                anchor: DVec3::ZERO,
                width: DVec3::ONE,
                pts: vec![DVec3::new(0.25, 0.5, 0.5), DVec3::new(0.75, 0.4, 0.6), DVec3::new(0.5, 0.9, 0.1)],
                mask: Some(vec![true, false, true]),
                origin: "evict".into(),
            };
            for v in [&v1, &v2, &v3] {
                let _ = (build_direct(&evict), build_integrator(&evict));
                if v.validity().is_ok() {
                    let _ = std::panic::catch_unwind(std::panic::AssertUnwindSafe(|| (build_direct(v), build_integrator(v))));
                }
                out.push((digest_voronoi(&build_direct(c)).0, digest_voronoi(&Voronoi::from(&build_integrator(c))).0));
            }
            out
        });
        match again {
            Err(p) => rep.violations.push(panic_violation(prop, c, &p)),
            Ok(out) => {
                rep.count("partial_builds_repeated_after_other_calls", out.len() as u64);
                for (k, (a1, a2)) in out.iter().enumerate() {
                    if *a1 != d0 || *a2 != d0 {
                        rep.violations.push(Violation::new(prop, "c07.partial_build_depends_on_history", format!("the partial construction repeated after a partial construction of the same positions with {} differs bitwise from the first one", ["another dimensionality", "the other periodic flag", "the complementary mask"][k]), Some(c), json!({"after": k})));
                        break;
                    }
                }
            }
        }
    }
    rep.count("masks_checked", 1);
    note_case(rep, c, nsel > 0 && nsel < n);
}

fn bookkeeping(prop: &str, route: &str, c: &Case, mask: &[bool], seen: &BTreeMap<(usize, usize, [i8; 3]), usize>, rep: &mut Report) {
    for ((l, r, sh), cnt) in seen {
        if *cnt != 1 {
            rep.violations.push(Violation::new(prop, "c07.face_stored_twice", format!("{route}: face {l}->{r} shift {sh:?} is stored {cnt} times"), Some(c), json!({"left": l, "right": r, "route": route})));
        }
        if mask[*r] && *sh == [0, 0, 0] && seen.contains_key(&(*r, *l, [0, 0, 0])) {
            rep.violations.push(Violation::new(prop, "c07.face_stored_from_both_sides", format!("{route}: unshifted face between selected cells {l} and {r} is stored from both sides"), Some(c), json!({"left": l, "right": r, "route": route})));
        }
    }
}

pub fn c07(a: &Args, rep: &mut Report) {
    rep.rule = "cases = (seeded input of the conditioned families, mask); masks: seeded (all/none/single/Bernoulli/all-but-one/halves) plus ALL 2^n masks of inputs with n <= 6 (quick) / n <= 10 (thorough); distinct = distinct hash of (input, mask); non-trivial = mask selects at least one and not all cells".into();
    rep.assumptions = vec!["the full build of the same input is the oracle (C01 judges the full build)".into()];
    let szs = sizes(a);
    let thorough = a.tier == "thorough";
    let n = ncases(a, 24000, 200000);
    run_parallel(rep, n, budget(a, 100., 900.), |k, rep| {
        let o = GenOpts {
            sizes: &szs,
            ..Default::default()
        };
        let mut c = gen_case("C07", &a.tier, a.seed, k, &o);
        let mut r = Rng::stream("C07mask", &[a.seed, k]);
        c.mask = Some(gen_mask(c.n(), &mut r));
        one_c07("C07", &c, rep);
    });
    // exhaustive masks on small inputs
    let nmax = if thorough { 10 } else { 6 };
    let ninputs = ncases(a, 24, 120);
    run_parallel(rep, ninputs, budget(a, 100., 900.), |k, rep| {
        let o = GenOpts {
            sizes: &[2, 3, 4, 5, 6, 7, 8, 9, 10],
            families: &["uniform", "tiny", "lattice", "blattice", "coplanar", "uniform"],
            ..Default::default()
        };
        // never truncate a structured family (a partial lattice on the walls is outside the conditioned domain):
        // draw again until the input is small enough
        let mut c = gen_case("C07x", &a.tier, a.seed, k, &o);
        let mut j = 1u64;
        while c.n() > nmax {
            c = gen_case("C07x", &a.tier, a.seed, k + 1_000_003 * j, &o);
            j += 1;
        }
        let nn = c.n();
        for bits in 0..(1u32 << nn) {
            c.mask = Some((0..nn).map(|i| bits >> i & 1 == 1).collect());
            one_c07("C07", &c, rep);
        }
        rep.count("inputs_with_all_masks_enumerated", 1);
    });
    medium_cases(a, rep, "C07", |c, rep| one_c07("C07", c, rep));
    // large inputs (index values beyond 2^16 / 2^17 / 2^18, several blocks of any blocked loop) under a seeded mask: thorough
    // tier only (the monitor's own per-cell maps make a 70 000-generator case cost a minute of single-threaded time; in the
    // quick tier masked partial constructions of that size run in C12 and C13, whose monitors are cheaper)
    crate::props::large_cases(a, rep, "C07", &[], &[20000, 70000, 140000, 270000], |c, rep| {
        let mut c = c.clone();
        let mut r = Rng::stream("C07largemask", &[c.hash()]);
        c.mask = Some(gen_mask(c.n(), &mut r));
        one_c07("C07", &c, rep)
    });
}

// ------------------------------------------------------------------------------------------------
// C12

pub fn walk_c12(prop: &str, route: &str, c: &Case, v: &Voronoi, rep: &mut Report) {
    let n = c.n();
    let cells = v.cells();
    let faces = v.faces();
    let cfc = v.cell_face_connections();
    if cells.len() != n {
        rep.violations.push(Violation::new(prop, "c12.cell_count", format!("{route}: {} cells for {n} generators", cells.len()), Some(c), json!({})));
        return;
    }
    // prefix sums
    let mut off = 0usize;
    for (i, cell) in cells.iter().enumerate() {
        if cell.face_connections_offset() != off {
            rep.violations.push(Violation::new(prop, "c12.offset", format!("{route}: cell {i} has offset {} but the face counts before it sum to {off}", cell.face_connections_offset()), Some(c), json!({"cell": i, "route": route})));
            return;
        }
        off += cell.face_count();
    }
    if off != cfc.len() {
        rep.violations.push(Violation::new(prop, "c12.total", format!("{route}: face counts sum to {off} but the connectivity array has {} entries", cfc.len()), Some(c), json!({"route": route})));
        return;
    }
    // a `VoronoiCell` is `Clone`: a copy of a cell (one cell, or `cells().to_vec()`) used with the tessellation it came from
    // answers like the cell itself - the cell carries its own generator index, it does not depend on where it is stored
    {
        let copies: Vec<meshless_voronoi::VoronoiCell> = cells.to_vec();
        let r = guarded(|| {
            let mut bad = None;
            for (i, (orig, copy)) in cells.iter().zip(&copies).enumerate() {
                let same = orig.face_indices(v) == copy.face_indices(v) && orig.neighbour_ids(v).collect::<Vec<_>>() == copy.neighbour_ids(v).collect::<Vec<_>>() && orig.faces(v).count() == copy.faces(v).count();
                let single = orig.clone();
                let same1 = orig.neighbour_ids(v).collect::<Vec<_>>() == single.neighbour_ids(v).collect::<Vec<_>>();
                if !(same && same1) && bad.is_none() {
                    bad = Some(i);
                }
            }
            bad
        });
        rep.count("cell_copies_compared", n as u64);
        match r {
            Ok(None) => {}
            Ok(Some(i)) => rep.violations.push(Violation::new(prop, "c12.copy_of_cell_differs", format!("{route}: a clone of cell {i} (used with the same tessellation) lists other faces / neighbours than the cell itself"), Some(c), json!({"cell": i, "route": route}))),
            Err(p) => rep.violations.push(Violation::new(prop, "c12.copy_of_cell_panics", format!("{route}: face_indices / neighbour_ids on a clone of a cell panicked: {}", p.message), Some(c), json!({"route": route}))),
        }
    }
    let mut listings: Vec<Vec<usize>> = vec![vec![]; faces.len()];
    for (i, cell) in cells.iter().enumerate() {
        let idxs = cell.face_indices(v);
        let mut local = BTreeSet::new();
        for &fi in idxs {
            if fi >= faces.len() {
                rep.violations.push(Violation::new(prop, "c12.face_index_out_of_range", format!("{route}: cell {i} lists face index {fi} >= {}", faces.len()), Some(c), json!({"cell": i, "route": route})));
                continue;
            }
            if !local.insert(fi) {
                rep.violations.push(Violation::new(prop, "c12.listed_twice", format!("{route}: cell {i} lists face #{fi} twice"), Some(c), json!({"cell": i, "face": fi, "route": route})));
            }
            listings[fi].push(i);
            let f = &faces[fi];
            let ok = f.left() == i || (f.right() == Some(i) && f.shift().is_none());
            if !ok {
                rep.violations.push(Violation::new(prop, "c12.listed_by_wrong_cell", format!("{route}: cell {i} lists face #{fi} ({} -> {:?}, shift {:?}) to which it does not belong", f.left(), f.right(), f.shift()), Some(c), json!({"cell": i, "face": fi, "route": route})));
            }
        }
        rep.count("cells_walked", 1);
        // neighbour iterator
        let mut expect = BTreeSet::new();
        for &fi in idxs {
            if fi >= faces.len() {
                continue;
            }
            let f = &faces[fi];
            if let (Some(r), None) = (f.right(), f.shift()) {
                expect.insert(if f.left() == i { r } else { f.left() });
            }
        }
        let got: Vec<usize> = cell.neighbour_ids(v).collect();
        let gots: BTreeSet<usize> = got.iter().copied().collect();
        rep.count("neighbour_ids_yielded", got.len() as u64);
        if gots.len() != got.len() {
            rep.violations.push(Violation::new(prop, "c12.neighbour_duplicate", format!("{route}: neighbour_ids of cell {i} yields a duplicate: {got:?}"), Some(c), json!({"cell": i, "route": route})));
        }
        if gots.contains(&i) {
            rep.violations.push(Violation::new(prop, "c12.neighbour_self", format!("{route}: neighbour_ids of cell {i} yields the cell itself: {got:?}"), Some(c), json!({"cell": i, "route": route})));
        } else if gots != expect {
            rep.violations.push(Violation::new(prop, "c12.neighbour_set", format!("{route}: neighbour_ids of cell {i} = {got:?}, expected {expect:?}"), Some(c), json!({"cell": i, "route": route})));
        }
    }
    for (fi, f) in faces.iter().enumerate() {
        let mut expect = vec![f.left()];
        if let (Some(r), None) = (f.right(), f.shift()) {
            if r == f.left() {
                rep.violations.push(Violation::new(prop, "c12.self_face", format!("{route}: face #{fi} has the same cell {r} on both sides without a shift"), Some(c), json!({"face": fi, "route": route})));
            } else {
                expect.push(r);
            }
        }
        expect.sort();
        let mut got = listings[fi].clone();
        got.sort();
        rep.count("faces_walked", 1);
        if got != expect {
            rep.violations.push(Violation::new(prop, "c12.face_listing", format!("{route}: face #{fi} ({} -> {:?}, shift {:?}) is listed by cells {got:?}, expected {expect:?}", f.left(), f.right(), f.shift()), Some(c), json!({"face": fi, "route": route})));
        }
    }
}

pub fn one_c12(prop: &str, c: &Case, rep: &mut Report) {
    let r = guarded(|| (build_direct(c), Voronoi::from(&build_integrator(c))));
    match r {
        Err(p) => {
            rep.violations.push(panic_violation(prop, c, &p));
            note_case(rep, c, false);
        }
        Ok((v1, v2)) => {
            walk_c12(prop, "direct", c, &v1, rep);
            walk_c12(prop, "integrator", c, &v2, rep);
            note_case(rep, c, !v1.faces().is_empty());
        }
    }
}

pub fn c12(a: &Args, rep: &mut Report) {
    rep.rule = "cases = seeded inputs of the conditioned families x dimensionality x periodic flag, two thirds with masks (all mask shapes; all 2^n masks for small n), walked through both construction routes; distinct = distinct hash of (input, mask); non-trivial = the tessellation stores at least one face".into();
    rep.assumptions = vec![];
    let szs = sizes(a);
    let n = ncases(a, 48000, 400000);
    run_parallel(rep, n, budget(a, 100., 900.), |k, rep| {
        let o = GenOpts {
            sizes: &szs,
            ..Default::default()
        };
        let mut c = gen_case("C12", &a.tier, a.seed, k, &o);
        if k % 3 != 0 {
            let mut r = Rng::stream("C12mask", &[a.seed, k]);
            c.mask = Some(gen_mask(c.n(), &mut r));
        }
        one_c12("C12", &c, rep);
    });
    let nmax = if a.tier == "thorough" { 10 } else { 7 };
    let ninputs = ncases(a, 24, 150);
    run_parallel(rep, ninputs, budget(a, 100., 900.), |k, rep| {
        let o = GenOpts {
            sizes: &[2, 3, 4, 5, 6, 7, 8, 9, 10],
            families: &["uniform", "tiny", "lattice", "blattice", "coplanar", "uniform"],
            ..Default::default()
        };
        let mut c = gen_case("C12x", &a.tier, a.seed, k, &o);
        let mut j = 1u64;
        while c.n() > nmax {
            c = gen_case("C12x", &a.tier, a.seed, k + 1_000_003 * j, &o);
            j += 1;
        }
        let nn = c.n();
        for bits in 0..(1u32 << nn) {
            c.mask = Some((0..nn).map(|i| bits >> i & 1 == 1).collect());
            one_c12("C12", &c, rep);
        }
        rep.count("inputs_with_all_masks_enumerated", 1);
    });
    medium_cases(a, rep, "C12", |c, rep| one_c12("C12", c, rep));
    large_cases(a, rep, "C12", &[20000, 70000], &[20000, 70000, 140000, 270000], |c, rep| {
        let mut c = c.clone();
        if c.n() % 2 == 0 {
            let mut r = Rng::stream("C12largemask", &[c.hash()]);
            c.mask = Some(gen_mask(c.n(), &mut r));
        }
        one_c12("C12", &c, rep)
    });
}

// ------------------------------------------------------------------------------------------------
// C13

pub fn one_c13(prop: &str, c: &Case, rep: &mut Report) {
    let r = guarded(|| {
        let vi = build_integrator(c);
        let via = Voronoi::from(&vi);
        let direct = build_direct(c);
        let cellint = vi.compute_cell_integrals::<VolumeCentroidIntegral>();
        let sym = vi.compute_face_integrals_sym::<AreaCentroidIntegral>();
        let nonsym = vi.compute_face_integrals::<AreaCentroidIntegral>();
        (vi, via, direct, cellint, sym, nonsym)
    });
    let (vi, via, direct, cellint, sym, nonsym) = match r {
        Ok(x) => x,
        Err(p) => {
            rep.violations.push(panic_violation(prop, c, &p));
            note_case(rep, c, false);
            return;
        }
    };
    let n = c.n();
    let (d1, d2) = (digest_voronoi(&via), digest_voronoi(&direct));
    rep.count("route_pairs_compared", 1);
    if d1.0 != d2.0 {
        // find the first difference for the report
        let mut what = String::from("digests differ");
        if via.faces().len() != direct.faces().len() {
            what = format!("face counts differ: {} vs {}", via.faces().len(), direct.faces().len());
        } else {
            for i in 0..n.min(via.cells().len()).min(direct.cells().len()) {
                let (x, y) = (&via.cells()[i], &direct.cells()[i]);
                if x.volume().to_bits() != y.volume().to_bits() || x.centroid() != y.centroid() || x.face_count() != y.face_count() {
                    what = format!("cell {i}: volume {:e} vs {:e}, centroid {:?} vs {:?}, face count {} vs {}", x.volume(), y.volume(), x.centroid(), y.centroid(), x.face_count(), y.face_count());
                    break;
                }
                let nbs = guarded(|| (x.neighbour_ids(&via).collect::<Vec<_>>(), y.neighbour_ids(&direct).collect::<Vec<_>>()));
                match nbs {
                    Ok((nx, ny)) if nx != ny => {
                        what = format!("cell {i}: neighbour_ids {nx:?} (from the integrator) vs {ny:?} (direct build)");
                        break;
                    }
                    Err(_) => {
                        what = format!("cell {i}: neighbour_ids panicked");
                        break;
                    }
                    _ => {}
                }
            }
        }
        rep.violations.push(Violation::new(prop, "c13.routes_differ", format!("Voronoi::from(&integrator) is not bitwise the direct build: {what}"), Some(c), json!({"digest_integrator": d1.hex(), "digest_direct": d2.hex()})));
    }
    // the public conversion primitive itself: `build_voronoi_cells` into caller-owned, empty face vectors gives the cells
    // and - concatenated in cell order - the faces of the tessellation, bitwise; a second call into the same vectors appends
    // the same faces again and leaves those of the first call untouched
    {
        let fb = |f: &meshless_voronoi::VoronoiFace| {
            let mut d = vcore::digest::Digest::new();
            d.usize(f.left());
            d.opt_usize(f.right());
            d.opt_v3(f.shift());
            d.f64(f.area());
            d.v3(f.centroid());
            d.v3(f.normal());
            d.0
        };
        let r = guarded(|| {
            let mut lists: Vec<Vec<meshless_voronoi::VoronoiFace>> = (0..n).map(|_| vec![]).collect();
            let cells1 = vi.build_voronoi_cells(&mut lists);
            let once: Vec<Vec<u64>> = lists.iter().map(|l| l.iter().map(fb).collect()).collect();
            let cells2 = vi.build_voronoi_cells(&mut lists);
            let twice: Vec<Vec<u64>> = lists.iter().map(|l| l.iter().map(fb).collect()).collect();
            (cells1, once, cells2, twice)
        });
        match r {
            Err(p) => rep.violations.push(panic_violation(prop, c, &p)),
            Ok((cells1, once, cells2, twice)) => {
                rep.count("build_voronoi_cells_calls_compared", 2);
                let cb = |x: &meshless_voronoi::VoronoiCell| (x.loc().to_array().map(f64::to_bits), x.centroid().to_array().map(f64::to_bits), x.volume().to_bits(), x.safety_radius().to_bits());
                let cells_ok = cells1.len() == via.cells().len() && cells2.len() == via.cells().len() && (0..cells1.len()).all(|i| cb(&cells1[i]) == cb(&via.cells()[i]) && cb(&cells2[i]) == cb(&via.cells()[i]));
                if !cells_ok {
                    rep.violations.push(Violation::new(prop, "c13.build_voronoi_cells_cells", "the cells returned by build_voronoi_cells (first or second call) are not bitwise the cells of Voronoi::from(&integrator)".to_string(), Some(c), json!({})));
                }
                let flat: Vec<u64> = once.iter().flatten().copied().collect();
                let want: Vec<u64> = via.faces().iter().map(fb).collect();
                // (`Voronoi::into_faces` hands out the same list)
                let owned: Vec<u64> = Voronoi::from(&vi).into_faces().iter().map(fb).collect();
                if owned != want {
                    rep.violations.push(Violation::new(prop, "c13.into_faces", "Voronoi::into_faces() is not bitwise the list returned by faces()".to_string(), Some(c), json!({})));
                }
                if flat != want {
                    rep.violations.push(Violation::new(prop, "c13.build_voronoi_cells_faces", format!("the faces appended by build_voronoi_cells ({} in cell order) are not bitwise the face list of Voronoi::from(&integrator) ({})", flat.len(), want.len()), Some(c), json!({})));
                }
                for i in 0..n {
                    let k = once[i].len();
                    if twice[i].len() != 2 * k || twice[i][..k] != once[i][..] || twice[i][k..] != once[i][..] {
                        let kept = twice[i].len() >= k && twice[i][..k] == once[i][..];
                        rep.violations.push(Violation::new(prop, "c13.build_voronoi_cells_second_call", format!("cell {i}: after a second build_voronoi_cells into the same vectors the list holds {} faces (first call: {k}); faces of the first call untouched: {kept}; appended faces equal to the first ones: {}", twice[i].len(), twice[i].len() == 2 * k && twice[i][k..] == once[i][..]), Some(c), json!({"cell": i})));
                        break;
                    }
                }
            }
        }
    }
    // cell integrals = stored values of the constructed cells in index order
    let active: Vec<usize> = (0..n).filter(|&i| is_active(c, i)).collect();
    if cellint.len() != active.len() {
        rep.violations.push(Violation::new(prop, "c13.cell_integral_count", format!("compute_cell_integrals returned {} entries for {} constructed cells", cellint.len(), active.len()), Some(c), json!({})));
    } else {
        for (k, &i) in active.iter().enumerate() {
            let cell = &direct.cells()[i];
            rep.count("cell_integrals_compared", 1);
            if cellint[k].volume.to_bits() != cell.volume().to_bits() || (0..3).any(|q| cellint[k].centroid[q].to_bits() != cell.centroid()[q].to_bits()) {
                rep.violations.push(Violation::new(prop, "c13.cell_integral", format!("entry {k} of compute_cell_integrals::<VolumeCentroidIntegral> (volume {:e}, centroid {:?}) is not the stored value of constructed cell {i} (volume {:e}, centroid {:?})", cellint[k].volume, cellint[k].centroid, cell.volume(), cell.centroid()), Some(c), json!({"entry": k, "cell": i})));
                break;
            }
        }
    }
    // symmetric face integrals = face list, in order
    if sym.len() != direct.faces().len() {
        rep.violations.push(Violation::new(prop, "c13.sym_count", format!("compute_face_integrals_sym returned {} entries, the tessellation stores {} faces", sym.len(), direct.faces().len()), Some(c), json!({})));
    } else {
        for (k, (x, f)) in sym.iter().zip(direct.faces()).enumerate() {
            rep.count("sym_faces_compared", 1);
            let same = x.left() == f.left()
                && x.right() == f.right()
                && x.shift().map(|s| s.to_array().map(f64::to_bits)) == f.shift().map(|s| s.to_array().map(f64::to_bits))
                && x.integral().area.to_bits() == f.area().to_bits()
                && (0..3).all(|q| x.integral().centroid[q].to_bits() == f.centroid()[q].to_bits());
            if !same {
                rep.violations.push(Violation::new(prop, "c13.sym_face", format!("entry {k} of compute_face_integrals_sym ({}->{:?} shift {:?} area {:e}) is not face #{k} of the tessellation ({}->{:?} shift {:?} area {:e})", x.left(), x.right(), x.shift(), x.integral().area, f.left(), f.right(), f.shift(), f.area()), Some(c), json!({"entry": k})));
                break;
            }
        }
    }
    // sym = non-sym minus exactly {shift None, right < left, right constructed}, in order
    let expect: Vec<usize> = (0..nonsym.len())
        .filter(|&k| {
            let f = &nonsym[k];
            !(f.shift().is_none() && matches!(f.right(), Some(r) if r < f.left() && is_active(c, r)))
        })
        .collect();
    rep.count("nonsym_faces_seen", nonsym.len() as u64);
    if expect.len() != sym.len() {
        rep.violations.push(Violation::new(prop, "c13.sym_vs_nonsym_count", format!("symmetric variant has {} entries, non-symmetric minus the already-reported faces has {}", sym.len(), expect.len()), Some(c), json!({})));
    } else {
        for (x, &k) in sym.iter().zip(&expect) {
            let y = &nonsym[k];
            let same = x.left() == y.left() && x.right() == y.right() && x.shift() == y.shift() && x.integral().area.to_bits() == y.integral().area.to_bits() && x.integral().centroid == y.integral().centroid;
            if !same {
                rep.violations.push(Violation::new(prop, "c13.sym_vs_nonsym", format!("symmetric entry {}->{:?} does not match non-symmetric entry #{k} {}->{:?}", x.left(), x.right(), y.left(), y.right()), Some(c), json!({"entry": k})));
                break;
            }
        }
    }
    // with faces (3D): same faces (neighbours, shifts, order) and connectivity; the measures of that route are
    // compared by C15 / C14 (the fan decomposition differs, so they cannot be bitwise)
    let mut wf_checked = false;
    if c.dim == 3 {
        match guarded(|| {
            let vf = vi.clone().with_faces();
            let v = Voronoi::from(&vf);
            (vf, v)
        }) {
            Err(p) => rep.violations.push(panic_violation(prop, c, &p)),
            Ok((vf, vw)) => {
                wf_checked = true;
                // the integrals evaluated on the with-faces integrator itself (the fan decomposition is another one, so the
                // measures agree up to rounding only, but the LISTS - which faces, which neighbour, which shift, in which
                // order - are those of the plain integrator, for the non-symmetric and for the symmetric variant, masked or not)
                match guarded(|| (vf.compute_face_integrals::<AreaCentroidIntegral>(), vf.compute_face_integrals_sym::<AreaCentroidIntegral>(), vf.compute_cell_integrals::<VolumeCentroidIntegral>())) {
                    Err(p) => rep.violations.push(panic_violation(prop, c, &p)),
                    Ok((wnonsym, wsym, wcells)) => {
                        let s = scales(c);
                        for (name, wl, pl) in [("compute_face_integrals", &wnonsym, &nonsym), ("compute_face_integrals_sym", &wsym, &sym)] {
                            rep.count("with_faces_integral_lists_compared", 1);
                            // faces without area may be present in one decomposition and absent in the other (a face
                            // polygon with fewer than three vertices has no fan triangle), and a face whose area is near the
                            // threshold must not flip the comparison: every face that has a clearly non-negligible area
                            // (10 x the property's threshold) in ONE list must be in the other one with the same area up
                            // to rounding, and the faces common to both lists come in the same order. Boundary faces of a
                            // cell whose generator lies exactly on a wall are skipped (finding F9: the with-faces
                            // decomposition gives such a face the area 0; reported by C14 / C15 as a known finding).
                            type Fk = (usize, Option<usize>, Option<[u64; 3]>);
                            let key = |f: &meshless_voronoi::integrals::FaceIntegrator<AreaCentroidIntegral>| -> Fk { (f.left(), f.right(), f.shift().map(|v| v.to_array().map(f64::to_bits))) };
                            let (an, wn) = c.norm_box();
                            let on_wall = |i: usize| (0..c.dim).any(|ax| c.pts[i][ax] == an[ax] || c.pts[i][ax] == an[ax] + wn[ax]);
                            let skip = |k: &Fk| k.1.is_none() && !c.periodic && on_wall(k.0);
                            let mx: std::collections::HashMap<Fk, f64> = wl.iter().map(|f| (key(f), f.integral().area)).collect();
                            let my: std::collections::HashMap<Fk, f64> = pl.iter().map(|f| (key(f), f.integral().area)).collect();
                            let mut bad = None;
                            for (m1, m2, who) in [(&mx, &my, "with faces"), (&my, &mx, "without faces")] {
                                for (k, &a1) in m1.iter() {
                                    if skip(k) {
                                        rep.count("with_faces_wall_faces_of_generators_on_walls_skipped", 1);
                                        continue;
                                    }
                                    if a1 > 10. * s.athr {
                                        let a2 = m2.get(k).copied().unwrap_or(0.);
                                        // accuracy of a face area of this cell by the tolerance model of DESIGN 5.3 (both
                                        // decompositions start from the same vertices); ill-conditioned cells: no metric verdict
                                        let Some(t) = vi.get_cell_at(k.0).map(|cell| cell_tol(cell, &s)) else { continue };
                                        if t.ill {
                                            rep.count("with_faces_faces_of_ill_conditioned_cells_skipped", 1);
                                            continue;
                                        }
                                        let tol = 8. * t.tol_a + 5. * s.athr;
                                        if !((a1 - a2).abs() <= tol) {
                                            bad = Some(format!("face {}->{:?} (shift {}) has area {a1:e} in the list evaluated {who} and {a2:e} in the other one", k.0, k.1, k.2.is_some()));
                                        }
                                    }
                                }
                            }
                            let common_x: Vec<Fk> = wl.iter().map(key).filter(|k| my.contains_key(k)).collect();
                            let common_y: Vec<Fk> = pl.iter().map(key).filter(|k| mx.contains_key(k)).collect();
                            if bad.is_none() && common_x != common_y {
                                bad = Some("the faces common to both lists come in a different order".to_string());
                            }
                            if let Some(what) = bad {
                                rep.violations.push(Violation::new(prop, "c13.with_faces_integral_list", format!("{name} on the with-faces integrator ({} entries) vs on the plain integrator ({} entries): {what}", wl.len(), pl.len()), Some(c), json!({"which": name})));
                            }
                        }
                        if wcells.len() != cellint.len() {
                            rep.violations.push(Violation::new(prop, "c13.with_faces_cell_integral_count", format!("compute_cell_integrals returns {} entries with faces, {} without", wcells.len(), cellint.len()), Some(c), json!({})));
                        }
                    }
                }
                if vw.faces().len() != via.faces().len() || vw.cell_face_connections() != via.cell_face_connections() {
                    // a face without any vertex is dropped by both decompositions alike; a different count is a difference
                    rep.violations.push(Violation::new(prop, "c13.with_faces_structure", format!("with_faces route stores {} faces / a different connectivity, the plain integrator route {}", vw.faces().len(), via.faces().len()), Some(c), json!({})));
                } else {
                    for (k, (x, y)) in vw.faces().iter().zip(via.faces()).enumerate() {
                        if x.left() != y.left() || x.right() != y.right() || x.shift() != y.shift() {
                            rep.violations.push(Violation::new(prop, "c13.with_faces_face", format!("face #{k}: with_faces route {}->{:?} {:?}, plain route {}->{:?} {:?}", x.left(), x.right(), x.shift(), y.left(), y.right(), y.shift()), Some(c), json!({"face": k})));
                            break;
                        }
                    }
                }
            }
        }
    }
    if wf_checked {
        rep.count("with_faces_routes_compared", 1);
    }
    note_case(rep, c, !direct.faces().is_empty());
}

pub fn c13(a: &Args, rep: &mut Report) {
    rep.rule = "cases = seeded inputs of the conditioned families x dimensionality x periodic flag, half with masks, built through Voronoi::build[_partial], VoronoiIntegrator::build -> Voronoi::from and (3D) with_faces -> Voronoi::from; distinct = distinct hash of (input, mask); non-trivial = at least one face stored".into();
    rep.assumptions = vec![];
    let szs = sizes(a);
    let n = ncases(a, 24000, 200000);
    run_parallel(rep, n, budget(a, 100., 900.), |k, rep| {
        let o = GenOpts {
            sizes: &szs,
            ..Default::default()
        };
        let mut c = gen_case("C13", &a.tier, a.seed, k, &o);
        with_random_mask("C13mask", a, k, &mut c, 2);
        one_c13("C13", &c, rep);
    });
    medium_cases(a, rep, "C13", |c, rep| one_c13("C13", c, rep));
    large_cases(a, rep, "C13", &[20000, 70000], &[20000, 70000, 150000], |c, rep| {
        let mut c = c.clone();
        if c.n() % 2 == 0 {
            let mut r = Rng::stream("C13largemask", &[c.hash()]);
            c.mask = Some(gen_mask(c.n(), &mut r));
        }
        one_c13("C13", &c, rep)
    });
}
