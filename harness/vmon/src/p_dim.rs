//! C08 (1D/2D depend only on the active coordinates) and C06 (periodic = infinitely replicated).

use crate::common::*;
use crate::geom;
use crate::props::*;
use crate::Args;
use glam::DVec3;
use meshless_voronoi::integrals::{AreaCentroidIntegral, FaceIntegrator};
use meshless_voronoi::Voronoi;
use serde_json::json;
use std::collections::{BTreeMap, BTreeSet};
use vcore::case::{gen_case, Case, GenOpts};
use vcore::refcell::Key;
use vcore::report::{Report, Violation};
use vcore::rng::Rng;

pub fn face_tables(nonsym: &[FaceIntegrator<AreaCentroidIntegral>], n: usize, w: DVec3) -> Vec<BTreeMap<Key, IFace>> {
    let mut t = vec![BTreeMap::new(); n];
    for f in nonsym {
        if let Some(j) = f.right() {
            let e = t[f.left()].entry(Key::Gen(j, shift_key(f.shift(), w))).or_insert(IFace {
                area: 0.,
                centroid: DVec3::ZERO,
                count: 0,
            });
            e.area += f.integral().area;
            e.centroid = f.integral().centroid;
            e.count += 1;
        }
    }
    t
}

// ------------------------------------------------------------------------------------------------
// C08

const GARBAGE: [f64; 9] = [0., -0., 1e300, -1e300, 5e-324, -2.2250738585072014e-308, 1., -7.25, 3.0e9];

fn garbage(r: &mut Rng, scale: f64) -> f64 {
    let g = *r.pick(&GARBAGE);
    if g == 3.0e9 {
        3.0e9 * scale * if r.bool() { 1. } else { -1. }
    } else {
        g
    }
}

/// A copy of `c` in which every unused coordinate (generators, anchor, width) is replaced by garbage.
fn with_garbage(c: &Case, r: &mut Rng) -> Case {
    let mut g = c.clone();
    let scale = c.lmax();
    for ax in c.dim..3 {
        for p in g.pts.iter_mut() {
            p[ax] = garbage(r, scale);
        }
        g.anchor[ax] = garbage(r, scale);
        g.width[ax] = garbage(r, scale);
    }
    g.origin = format!("{}+garbage", c.origin);
    g
}

fn full_digest(c: &Case) -> Result<(u64, u64, u64), PanicInfo> {
    guarded(|| {
        let vi = build_integrator(c);
        let via = Voronoi::from(&vi);
        let direct = build_direct(c);
        let nonsym = vi.compute_face_integrals::<AreaCentroidIntegral>();
        (digest_voronoi(&via).0, digest_voronoi(&direct).0, digest_faces(&nonsym).0)
    })
}

pub fn one_c08(prop: &str, c: &Case, rep: &mut Report) {
    if c.dim == 3 {
        return;
    }
    let b = match build_observed(c, 0, 0) {
        Ok(b) => b,
        Err(p) => {
            rep.violations.push(panic_violation(prop, c, &p));
            note_case(rep, c, false);
            return;
        }
    };
    let s = scales(c);
    let (a, w) = c.norm_box();
    let n = c.n();
    let v = &b.v;
    // (e) dimensionality
    if v.dimensionality() != c.dim {
        rep.violations.push(Violation::new(prop, "c08.dimensionality", format!("Voronoi::dimensionality() = {} for a {}D build", v.dimensionality(), c.dim), Some(c), json!({})));
    }
    // (a) garbage in the unused coordinates: bitwise identical results
    let base = full_digest(c);
    let mut r = Rng::stream("C08garbage", &[c.hash()]);
    for rep_k in 0..3 {
        let g = with_garbage(c, &mut r);
        let dg = full_digest(&g);
        rep.count("garbage_variants_compared", 1);
        match (&base, &dg) {
            (Ok(x), Ok(y)) => {
                if x != y {
                    let which = if x.0 != y.0 { "integrator route" } else if x.1 != y.1 { "direct route" } else { "non-symmetric face integrals" };
                    rep.violations.push(Violation::new(prop, "c08.unused_coordinates_matter", format!("changing only unused coordinates changed the result ({which}); variant {rep_k}: anchor {:?} width {:?} first generator {:?}", g.anchor, g.width, g.pts.first()), Some(&g), json!({"variant": rep_k, "base_case": c.to_json()})));
                }
            }
            (Ok(_), Err(p)) => rep.violations.push(Violation::new(prop, "c08.unused_coordinates_panic", format!("changing only unused coordinates makes the build panic at {}:{}: {}", p.file, p.line, p.message), Some(&g), json!({"variant": rep_k}))),
            _ => {}
        }
    }
    // (b) normals inside the active subspace, unit; no face orthogonal to it
    for (fi, f) in v.faces().iter().enumerate() {
        let nrm = f.normal();
        rep.count("faces_checked", 1);
        let bad_sub = (c.dim..3).any(|ax| nrm[ax] != 0.);
        if bad_sub || !((nrm.length() - 1.).abs() <= 8. * s.u) {
            rep.violations.push(Violation::new(prop, "c08.normal_outside_subspace", format!("face #{fi} ({}->{:?}) has normal {:?} in a {}D tessellation", f.left(), f.right(), nrm, c.dim), Some(c), json!({"face": fi})));
        }
        if !(f.area().is_finite() && f.centroid().is_finite()) {
            rep.violations.push(Violation::new(prop, "c08.nonfinite", format!("face #{fi} has non-finite values"), Some(c), json!({"face": fi})));
        }
    }
    for f in &b.nonsym {
        // the integrator route must not report faces orthogonal to the active subspace either: their neighbour is
        // None (wall) and the cell would then have more than 2 (1D) / an unbounded number of wall faces
        let _ = f;
    }
    let pts = c.proj_pts();
    if c.dim == 1 {
        // (c) closed form
        let mut order: Vec<usize> = (0..n).collect();
        order.sort_by(|&i, &j| pts[i].x.partial_cmp(&pts[j].x).unwrap());
        let tol = K * s.u * s.m * 4.;
        for (q, &i) in order.iter().enumerate() {
            if !is_active(c, i) {
                continue;
            }
            let x = pts[i].x;
            let (lo, lo_nb) = if q > 0 {
                (0.5 * (x + pts[order[q - 1]].x), Some(order[q - 1]))
            } else if c.periodic {
                (0.5 * (x + pts[order[n - 1]].x - w.x), Some(order[n - 1]))
            } else {
                (a.x, None)
            };
            let (hi, hi_nb) = if q + 1 < n {
                (0.5 * (x + pts[order[q + 1]].x), Some(order[q + 1]))
            } else if c.periodic {
                (0.5 * (x + pts[order[0]].x + w.x), Some(order[0]))
            } else {
                (a.x + w.x, None)
            };
            let cell = &v.cells()[i];
            rep.count("cells_1d_compared", 1);
            let dv = (cell.volume() - (hi - lo)).abs();
            let dc = (cell.centroid() - DVec3::new(0.5 * (lo + hi), 0., 0.)).abs().max_element();
            rep.max("c08.1d_dV_over_tol", dv / tol);
            // the centroid is a quotient by the length: its error is amplified for tiny cells
            let ctol = tol * (1. + s.m / (hi - lo).max(1e-300)).min(1e12);
            if !(dv <= tol) || !(dc <= ctol) {
                rep.violations.push(Violation::new(prop, "c08.1d_closed_form", format!("1D cell {i}: length {:e} centroid {:?}, closed form [{lo:e}, {hi:e}] -> length {:e}, centre {:e}", cell.volume(), cell.centroid(), hi - lo, 0.5 * (lo + hi)), Some(c), json!({"cell": i})));
            }
            // two faces of area 1 with the expected neighbours
            let fl: Vec<_> = cell.faces(v).collect();
            let own: Vec<_> = b.nonsym.iter().filter(|f| f.left() == i).collect();
            // area of the unit cross-section: exact up to the rounding of vertex coordinates of magnitude M
            let atol = K * s.u * (1. + s.m);
            for f in &own {
                rep.max("c08.1d_face_area_err_over_tol", (f.integral().area - 1.).abs() / atol);
            }
            if own.len() != 2 || own.iter().any(|f| !((f.integral().area - 1.).abs() <= atol)) {
                rep.violations.push(Violation::new(prop, "c08.1d_faces", format!("1D cell {i} has {} faces with areas {:?} (expected 2 faces of area 1)", own.len(), own.iter().map(|f| f.integral().area).collect::<Vec<_>>()), Some(c), json!({"cell": i})));
            } else {
                let mut got: Vec<Option<usize>> = own.iter().map(|f| f.right()).collect();
                let mut exp = vec![lo_nb, hi_nb];
                got.sort();
                exp.sort();
                if got != exp {
                    rep.violations.push(Violation::new(prop, "c08.1d_neighbours", format!("1D cell {i} has neighbours {got:?}, closed form {exp:?}"), Some(c), json!({"cell": i})));
                }
            }
            if c.mask.is_none() && fl.len() != 2 && !(c.periodic && n <= 2) {
                rep.violations.push(Violation::new(prop, "c08.1d_listed_faces", format!("1D cell {i} lists {} faces in the compact tessellation", fl.len()), Some(c), json!({"cell": i})));
            }
        }
    }
    if c.dim == 2 {
        // (d) 2D vs the 3D build of the same generators at z = 0 in a slab of unit thickness
        let mut c3 = c.clone();
        c3.dim = 3;
        for p in c3.pts.iter_mut() {
            p.z = 0.;
        }
        c3.anchor.z = -0.5;
        c3.width.z = 1.;
        c3.origin = format!("{}+slab3d", c.origin);
        match build_observed(&c3, 0, 0) {
            Err(p) => {
                // robustness of the degenerate (all-coplanar) 3D input is C05's subject, not C08's
                rep.inconclusive(format!("3D slab build of {} panicked ({}); 2D-vs-3D comparison skipped", c.origin, p.signature()));
            }
            Ok(b3) => {
                let t2 = face_tables(&b.nonsym, n, w);
                let t3 = face_tables(&b3.nonsym, n, w);
                let w2 = wall_face_tables(&b.v, n);
                let w3 = wall_face_tables(&b3.v, n);
                for i in 0..n {
                    let (Some(c2), Some(c3c)) = (b.vi.get_cell_at(i), b3.vi.get_cell_at(i)) else { continue };
                    let tl2 = cell_tol(c2, &s);
                    let tl3 = cell_tol(c3c, &scales(&c3));
                    if tl2.ill || tl3.ill {
                        rep.count("cells_ill_conditioned_metric_skipped", 1);
                        continue;
                    }
                    rep.count("cells_2d_vs_3d_compared", 1);
                    let (x, y) = (&b.v.cells()[i], &b3.v.cells()[i]);
                    let tv = tl2.tol_v + tl3.tol_v;
                    let dm = (x.centroid() * x.volume() - y.centroid() * y.volume()).abs().max_element();
                    rep.max("c08.2d3d_dV_over_tol", (x.volume() - y.volume()).abs() / tv);
                    if !((x.volume() - y.volume()).abs() <= tv) || !(dm <= tl2.tol_m + tl3.tol_m) {
                        rep.violations.push(Violation::new(prop, "c08.2d_vs_3d_cell", format!("cell {i}: 2D area {:e} centroid {:?} vs 3D slab volume {:e} centroid {:?}", x.volume(), x.centroid(), y.volume(), y.centroid()), Some(c), json!({"cell": i})));
                    }
                    let mut keys: BTreeSet<Key> = t2[i].keys().copied().collect();
                    keys.extend(t3[i].keys().filter(|k| matches!(k, Key::Gen(_, sh) if sh[2] == 0)).copied());
                    let ta = tl2.tol_a + tl3.tol_a;
                    for k in keys {
                        let (a2, a3) = (t2[i].get(&k).map_or(0., |f| f.area), t3[i].get(&k).map_or(0., |f| f.area));
                        rep.count("faces_2d_vs_3d_compared", 1);
                        if !((a2 - a3).abs() <= ta) && a2.max(a3) > s.athr {
                            rep.violations.push(Violation::new(prop, "c08.2d_vs_3d_face", format!("cell {i} face {k:?}: 2D length {:e} vs 3D slab area {:e} (tol {:e})", a2, a3, ta), Some(c), json!({"cell": i})));
                        }
                    }
                    for q in 0..4u8 {
                        let k = Key::Wall(q);
                        let (a2, a3) = (w2[i].get(&k).map_or(0., |f| f.area), w3[i].get(&k).map_or(0., |f| f.area));
                        if !((a2 - a3).abs() <= ta) && a2.max(a3) > s.athr {
                            rep.violations.push(Violation::new(prop, "c08.2d_vs_3d_wall", format!("cell {i} wall {q}: 2D length {:e} vs 3D slab area {:e}", a2, a3), Some(c), json!({"cell": i})));
                        }
                    }
                    // the 2D tessellation must not report the two faces orthogonal to the plane
                    if w2[i].contains_key(&Key::Wall(4)) || w2[i].contains_key(&Key::Wall(5)) {
                        rep.violations.push(Violation::new(prop, "c08.2d_reports_z_face", format!("2D cell {i} reports a face orthogonal to the active plane"), Some(c), json!({"cell": i})));
                    }
                }
            }
        }
    }
    note_case(rep, c, n >= 2);
}

pub fn c08(a: &Args, rep: &mut Report) {
    rep.rule = "cases = seeded 1D and 2D inputs of the conditioned families (periodic or not, one quarter with masks); each is rebuilt 3 times with garbage (0, -0, +-1e300, subnormals, box-violating values) in every unused coordinate of generators, anchor and width and compared bitwise; 1D against the sorted-midpoint closed form; 2D against the 3D build in a unit slab; distinct = distinct input hash; non-trivial = at least 2 generators".into();
    rep.assumptions = vec!["1D closed form computed in the harness".into(), "the 3D slab build is judged by C01; a panic of that degenerate 3D build is counted as inconclusive here".into()];
    let szs = sizes(a);
    let n = ncases(a, 2500, 60000);
    run_parallel(rep, n, budget(a, 100., 900.), |k, rep| {
        let o = GenOpts {
            sizes: &szs,
            dims: &[1, 2, 2],
            ..Default::default()
        };
        let mut c = gen_case("C08", &a.tier, a.seed, k, &o);
        with_random_mask("C08mask", a, k, &mut c, 4);
        one_c08("C08", &c, rep);
    });
}

// ------------------------------------------------------------------------------------------------
// C06

/// The 3^d-fold replicated, non-periodic version of a periodic case. Index of image (block b, generator j) is
/// b * n + j; returns the block shifts and the index of the central block.
fn replicated(c: &Case) -> (Case, Vec<[i8; 3]>, usize) {
    let (_, w) = c.norm_box();
    let d = c.dim;
    let rng = |k: usize| if k < d { vec![0i8, -1, 1] } else { vec![0i8] };
    let mut blocks = vec![];
    for sx in rng(0) {
        for sy in rng(1) {
            for sz in rng(2) {
                blocks.push([sx, sy, sz]);
            }
        }
    }
    let mut r = c.clone();
    r.periodic = false;
    r.pts.clear();
    for b in &blocks {
        let sv = DVec3::new(b[0] as f64 * w.x, b[1] as f64 * w.y, b[2] as f64 * w.z);
        for p in &c.pts {
            let mut q = *p;
            for k in 0..d {
                q[k] += sv[k];
            }
            r.pts.push(q);
        }
    }
    for k in 0..d {
        r.anchor[k] = c.anchor[k] - c.width[k];
        r.width[k] = 3. * c.width[k];
    }
    let n = c.n();
    let mut mask = vec![false; r.pts.len()];
    for m in mask.iter_mut().take(n) {
        *m = true;
    }
    r.mask = Some(mask);
    r.origin = format!("{}+replicated", c.origin);
    (r, blocks, 0)
}

fn wrap_into(p: f64, a: f64, w: f64) -> f64 {
    let mut q = p;
    let mut guard = 0;
    while q >= a + w && guard < 8 {
        q -= w;
        guard += 1;
    }
    while q < a && guard < 16 {
        q += w;
        guard += 1;
    }
    if q >= a + w {
        q = a;
    }
    q
}

pub fn one_c06(prop: &str, c: &Case, rep: &mut Report) {
    if !c.periodic {
        return;
    }
    let b = match build_observed(c, 0, 0) {
        Ok(b) => b,
        Err(p) => {
            rep.violations.push(panic_violation(prop, c, &p));
            note_case(rep, c, false);
            return;
        }
    };
    let s = scales(c);
    let (_, w) = c.norm_box();
    let n = c.n();
    // ---- shift lattice, no boundary faces
    for (fi, f) in b.v.faces().iter().enumerate() {
        rep.count("faces_checked", 1);
        if f.right().is_none() {
            rep.violations.push(Violation::new(prop, "c06.boundary_face", format!("periodic tessellation has a boundary face (#{fi}, cell {}, normal {:?})", f.left(), f.normal()), Some(c), json!({"face": fi})));
        }
        if let Some(sv) = f.shift() {
            let k = shift_key(Some(sv), w);
            let off_lattice = k.contains(&99) || (c.dim..3).any(|ax| sv[ax] != 0.);
            if off_lattice {
                rep.violations.push(Violation::new(prop, "c06.shift_off_lattice", format!("face #{fi} ({}->{:?}) has shift {:?}, not a lattice vector of the period {:?}", f.left(), f.right(), sv, w), Some(c), json!({"face": fi})));
            }
            if sv == DVec3::ZERO {
                rep.violations.push(Violation::new(prop, "c06.shift_some_zero", format!("face #{fi} ({}->{:?}) reports Some(zero shift) instead of None", f.left(), f.right()), Some(c), json!({"face": fi})));
            }
        }
    }
    for f in &b.nonsym {
        if f.right().is_none() {
            rep.violations.push(Violation::new(prop, "c06.boundary_face", format!("periodic integrator reports a boundary face for cell {}", f.left()), Some(c), json!({"cell": f.left()})));
        }
        if let Some(sv) = f.shift() {
            if shift_key(Some(sv), w).contains(&99) || sv == DVec3::ZERO || (c.dim..3).any(|ax| sv[ax] != 0.) {
                rep.violations.push(Violation::new(prop, "c06.shift_off_lattice", format!("integrator face {}->{:?} has shift {:?}", f.left(), f.right(), sv), Some(c), json!({"cell": f.left()})));
            }
        }
    }
    // ---- output oracles on the periodic input (reference on the replicated set; normals / bisector / closure)
    let rd = geom::reference(c);
    geom::check_c01(prop, c, &b, &rd, rep);
    geom::check_c04(prop, c, &b, &b.v, rep);

    // ---- the implementation's own non-periodic build of the replicated set
    let tper = face_tables(&b.nonsym, n, w);
    let (rc, blocks, _) = replicated(c);
    match build_observed(&rc, 0, 0) {
        Err(p) => {
            rep.inconclusive(format!("non-periodic build of the replicated set of {} panicked ({})", c.origin, p.signature()));
        }
        Ok(br) => {
            // map a replicated index to (generator, block shift)
            let mut trep: Vec<BTreeMap<Key, IFace>> = vec![BTreeMap::new(); n];
            for f in &br.nonsym {
                if f.left() >= n {
                    continue;
                }
                if let Some(k) = f.right() {
                    let (blk, j) = (k / n, k % n);
                    let e = trep[f.left()].entry(Key::Gen(j, blocks[blk])).or_insert(IFace {
                        area: 0.,
                        centroid: DVec3::ZERO,
                        count: 0,
                    });
                    e.area += f.integral().area;
                    e.centroid = f.integral().centroid;
                    e.count += 1;
                } else {
                    // a central cell that reaches the wall of the tripled box: the 3^d block is not sufficient
                    // (cannot happen for the true diagram)
                    if f.integral().area > s.athr {
                        rep.violations.push(Violation::new(prop, "c06.central_cell_reaches_outer_wall", format!("cell {} of the replicated build touches the wall of the tripled box", f.left()), Some(c), json!({"cell": f.left()})));
                    }
                }
            }
            let srep = scales(&rc);
            for i in 0..n {
                let (Some(cp), Some(cr)) = (b.vi.get_cell_at(i), br.vi.get_cell_at(i)) else { continue };
                let (tp, tr) = (cell_tol(cp, &s), cell_tol(cr, &srep));
                if tp.ill || tr.ill {
                    rep.count("cells_ill_conditioned_metric_skipped", 1);
                    continue;
                }
                rep.count("cells_vs_replicated_compared", 1);
                let (x, y) = (&b.v.cells()[i], &br.v.cells()[i]);
                let tv = tp.tol_v + tr.tol_v;
                rep.max("c06.repl_dV_over_tol", (x.volume() - y.volume()).abs() / tv);
                let dm = (x.centroid() * x.volume() - y.centroid() * y.volume()).abs().max_element();
                if !((x.volume() - y.volume()).abs() <= tv) || !(dm <= tp.tol_m + tr.tol_m) {
                    rep.violations.push(Violation::new(prop, "c06.cell_vs_replicated", format!("cell {i}: periodic volume {:e} centroid {:?}; central block of the replicated non-periodic build: {:e} {:?}", x.volume(), x.centroid(), y.volume(), y.centroid()), Some(c), json!({"cell": i})));
                }
                let mut keys: BTreeSet<Key> = tper[i].keys().copied().collect();
                keys.extend(trep[i].keys().copied());
                let ta = tp.tol_a + tr.tol_a;
                for k in keys {
                    let (ap, ar) = (tper[i].get(&k).map_or(0., |f| f.area), trep[i].get(&k).map_or(0., |f| f.area));
                    rep.count("faces_vs_replicated_compared", 1);
                    rep.max("c06.repl_dA_over_tol", (ap - ar).abs() / ta);
                    if !((ap - ar).abs() <= ta) && ap.max(ar) > s.athr {
                        let kind = if ap <= s.athr { "c06.neighbour_missing" } else if ar <= s.athr { "c06.neighbour_spurious" } else { "c06.face_vs_replicated" };
                        rep.violations.push(Violation::new(prop, kind, format!("cell {i} face {k:?}: periodic area {ap:e}, replicated build {ar:e} (tol {ta:e})"), Some(c), json!({"cell": i, "key": format!("{k:?}")})));
                    }
                }
            }
        }
    }

    // ---- translation invariance
    if c.mask.is_none() {
        let mut r = Rng::stream("C06shift", &[c.hash()]);
        let (a0, _) = c.norm_box();
        let tv_list: Vec<DVec3> = vec![
            DVec3::new(0.5 * w.x, 0.5 * w.y, 0.5 * w.z),
            DVec3::new(w.x * (1. - f64::EPSILON), -w.y * 0.25, w.z * 0.125),
            DVec3::new(r.f() * w.x, r.f() * w.y, r.f() * w.z),
            // moves the first generator exactly onto the lower box boundary
            a0 - c.proj_pts()[0],
        ];
        let base_tabs = tper;
        for (tk, t) in tv_list.iter().enumerate() {
            let mut ct = c.clone();
            for p in ct.pts.iter_mut() {
                for k in 0..c.dim {
                    p[k] = wrap_into(p[k] + t[k], c.anchor[k], c.width[k]);
                }
            }
            ct.origin = format!("{}+translated{tk}", c.origin);
            if ct.validity().is_err() {
                rep.count("translations_skipped_invalid_after_rounding", 1);
                continue;
            }
            match build_observed(&ct, 0, 0) {
                Err(p) => rep.violations.push(
                    Violation::new(prop, "c06.translated_panic", format!("the translated (wrapped) input panics at {}:{}: {}", p.file, p.line, p.message), Some(&ct), json!({"translation": v3j(*t)})).with_signature(&p.signature()),
                ),
                Ok(bt) => {
                    rep.count("translations_compared", 1);
                    let tt = face_tables(&bt.nonsym, n, w);
                    for i in 0..n {
                        let (Some(c0), Some(c1)) = (b.vi.get_cell_at(i), bt.vi.get_cell_at(i)) else { continue };
                        let (t0, t1) = (cell_tol(c0, &s), cell_tol(c1, &scales(&ct)));
                        if t0.ill || t1.ill {
                            continue;
                        }
                        let (x, y) = (b.v.cells()[i].volume(), bt.v.cells()[i].volume());
                        let tv = 2. * (t0.tol_v + t1.tol_v);
                        rep.max("c06.transl_dV_over_tol", (x - y).abs() / tv);
                        if !((x - y).abs() <= tv) {
                            rep.violations.push(Violation::new(prop, "c06.translation_volume", format!("cell {i}: measure {x:e} before and {y:e} after translating all generators by {t:?} (tol {tv:e})"), Some(c), json!({"cell": i, "translation": v3j(*t)})));
                        }
                        // sorted face areas per neighbour
                        let collect = |tab: &BTreeMap<Key, IFace>| {
                            let mut m: BTreeMap<usize, Vec<f64>> = BTreeMap::new();
                            for (k, f) in tab {
                                if let Key::Gen(j, _) = k {
                                    m.entry(*j).or_default().push(f.area);
                                }
                            }
                            for v in m.values_mut() {
                                v.sort_by(|a, b| b.partial_cmp(a).unwrap());
                            }
                            m
                        };
                        let (m0, m1) = (collect(&base_tabs[i]), collect(&tt[i]));
                        let ta = 2. * (t0.tol_a + t1.tol_a);
                        let js: BTreeSet<usize> = m0.keys().chain(m1.keys()).copied().collect();
                        for j in js {
                            let e = vec![];
                            let (l0, l1) = (m0.get(&j).unwrap_or(&e), m1.get(&j).unwrap_or(&e));
                            for q in 0..l0.len().max(l1.len()) {
                                let (x, y) = (l0.get(q).copied().unwrap_or(0.), l1.get(q).copied().unwrap_or(0.));
                                rep.count("translated_faces_compared", 1);
                                if !((x - y).abs() <= ta) && x.max(y) > s.athr {
                                    rep.violations.push(Violation::new(prop, "c06.translation_face", format!("cell {i} neighbour {j}: face area {x:e} before and {y:e} after translating all generators by {t:?} (tol {ta:e})"), Some(c), json!({"cell": i, "neighbour": j, "translation": v3j(*t)})));
                                }
                            }
                        }
                    }
                }
            }
        }
    }
    note_case(rep, c, true);
}

pub fn c06(a: &Args, rep: &mut Report) {
    rep.rule = "cases = seeded periodic inputs of the conditioned families (1D/2D/3D, n from 1 where a generator neighbours its own images); each is compared with the implementation's non-periodic build of the 3^d-replicated set, with the brute-force reference, and with 4 translated (wrapped) copies; distinct = distinct input hash; non-trivial = every case (a periodic build always has faces)".into();
    rep.assumptions = vec!["the 3^d block is sufficient for the infinite replication: any image with |delta_k| > w_k is dominated by a nearer image of the same generator".into(), "tolerance model of DESIGN 5.3".into()];
    let thorough = a.tier == "thorough";
    let szs: Vec<usize> = if thorough { vec![1, 2, 3, 4, 5, 8, 13, 27, 50, 100, 200, 400] } else { vec![1, 2, 3, 4, 5, 8, 13, 27, 50, 100] };
    let n = ncases(a, 5000, 30000);
    run_parallel(rep, n, budget(a, 100., 1200.), |k, rep| {
        let o = GenOpts {
            sizes: &szs,
            periodic: Some(true),
            ..Default::default()
        };
        let mut c = gen_case("C06", &a.tier, a.seed, k, &o);
        with_random_mask("C06mask", a, k, &mut c, 5);
        one_c06("C06", &c, rep);
        // history (every fifth input): the SAME generators in a box that is wider along one active axis (they are still
        // inside it), right after the first construction on the same thread, judged by the same oracles - the period of a
        // construction is the one of its own arguments, not one remembered from a previous call
        if k % 5 == 3 {
            let mut r = Rng::stream("C06wider", &[a.seed, k]);
            let ax = r.below(c.dim);
            let mut c2 = c.clone();
            c2.width[ax] *= *r.pick(&[1.25, 2., 1.0625]);
            c2.origin = format!("{}/wider{}", c.origin, ax);
            if c2.validity().is_ok() {
                one_c06("C06", &c2, rep);
                rep.count("history_same_generators_wider_box", 1);
            }
        }
    });
    // zoom inputs are judged by their own monitor only (local reference): the translation / replication comparisons above
    // perturb the generators by u W, which the box-relative tolerance model does not relate to cells of 1e-8 W
    zoom_cells(a, rep, "C06", false, 400, 6000, |c, rep| crate::p_zoom::one_zoom("C06", c, rep));
}
