# C14 main leg (sourced by ./check). Three downstream crates, none of them uses the `verif` hooks:
#   vprobe  - compile probe: can the integral traits be implemented at all?         (compile failure = the observation)
#   vdata   - per-cell extra data: compile probe + alignment monitor               (E0119 = known finding F11)
#   vcustom - the custom integrals that monitor the signed decomposition           (writes the evidence file)
legdir="$OUT/evidence/legs"; mkdir -p "$legdir" "$OUT/replay"
known_has() { grep -q "\"signature\": \"$1\"" "$VERIF/known_findings.json" 2>/dev/null; }

# ---- 1. nameability probe
pout=$(cargo build --offline --release -p vprobe 2>&1); prc=$?
if [ $prc -ne 0 ]; then
    if echo "$pout" | grep -E "^error\[E0(405|412|432|433|603|446)\]" -A6 | grep -q "ConvexCellMarker\|WithFaces\|WithoutFaces\|private"; then
        f="$OUT/replay/C14-probe-compile.txt"; echo "$pout" | grep -E "^error" -A10 > "$f"
        echo "VIOLATION property=C14 replay=$f"
        echo "  [c14.traits_not_implementable] a downstream crate cannot implement CellIntegral / FaceIntegral: $(echo "$pout" | grep -E '^error' | head -1)"
        status=1
    else
        echo "$pout" | grep -E "^error" -A8 | head -30
        echo "BROKEN: harness/vprobe does not build for a reason unrelated to the trait bounds"; exit 2
    fi
    probe_ok=false
else
    probe_ok=true
    "$H/target/release/vprobe" || { echo "VIOLATION property=C14 replay=$OUT/replay/C14-probe-run.txt"; echo "probe crashed" > "$OUT/replay/C14-probe-run.txt"; status=1; }
fi

# ---- 2. extra data
dout=$(cargo build --offline --release -p vdata 2>&1); drc=$?
data_state="compiled"
if [ $drc -ne 0 ]; then
    if echo "$dout" | grep -q "error\[E0119\]: conflicting implementations of trait \`\(Cell\|Face\)IntegralWithData\`"; then
        data_state="E0119"
        if known_has "c14.with_data_not_implementable"; then
            echo "KNOWN-FINDING: property=C14 F11 the *WithData integral traits cannot be implemented for a non-unit Data type (E0119 against the library's blanket impl): per-cell extra data is unusable downstream; harness/vdata does not compile"
        else
            f="$OUT/replay/C14-vdata-compile.txt"; echo "$dout" | grep -E "^error" -A10 > "$f"
            echo "VIOLATION property=C14 replay=$f"; echo "  [c14.with_data_not_implementable] $(echo "$dout" | grep -E '^error' | head -1)"; status=1
        fi
    elif [ "$probe_ok" = true ]; then
        echo "$dout" | grep -E "^error" -A8 | head -30
        echo "BROKEN: harness/vdata does not build for a reason other than the known E0119"; exit 2
    fi
else
    vout=$(VERIF_SEED="$SEED" "$H/target/release/vdata" $([ "$TIER" = thorough ] && echo 5000 || echo 400) 2>&1); vrc=$?
    echo "$vout" | tail -3
    if [ $vrc -ne 0 ]; then
        f="$OUT/replay/C14-vdata-run.txt"; echo "$vout" > "$f"
        echo "VIOLATION property=C14 replay=$f"; echo "  [c14.data_misaligned] extra data delivered to a cell with another generator index"; status=1
    fi
    data_state="ran rc=$vrc: $(echo "$vout" | tail -1)"
fi
printf '{"leg":"probes","nameability_probe_compiles":%s,"extra_data_crate":"%s"}\n' "$probe_ok" "$data_state" > "$legdir/C14.probes.json"

# ---- 3. the custom integrals
if [ "$probe_ok" = true ]; then
    build "vcustom" build --offline --release -p vcustom
    guarded_run main "$H/target/release/vcustom" C14 --tier "$TIER" --seed "$SEED" --verif-dir "$VERIF" --out-dir "$OUT"
    rc=$?
    if [ $rc -eq 1 ]; then status=1; elif [ $rc -ne 0 ] && [ $status -eq 0 ]; then status=$rc; fi
else
    # without the traits the monitors cannot exist; the violation above is the verdict. Write a minimal evidence file.
    printf '{"property_id":"C14","tier":"%s","seed":%s,"level":"exploration","coverage":{"evaluations":1,"distinct_nontrivial":0,"rule":"compile probe only: the integral traits cannot be implemented downstream","samples":["harness/vprobe"]},"wall_s":0,"violations":1}\n' "$TIER" "$SEED" > "$OUT/evidence/C14.json"
fi
