#!/usr/bin/env python3
"""Regenerate /verif/MANIFEST.json.  Edit CLAIMED / NOT_APPLICABLE below, then run this script.

A property is listed under `checks` only when its monitor exists in the harness and is silent on the unchanged tree;
everything else is listed under `not_applicable` with the reason."""
import json, os, subprocess, sys

VERIF = os.path.dirname(os.path.dirname(os.path.abspath(__file__)))

# id -> (technique, level text, level note, design ref)
CHECKS = {
    "C01": ("runtime monitoring: reference-model monitor (brute-force half-space clipper + nearest-generator membership oracle) over every cell of seeded hostile inputs; ASan/valgrind legs in thorough",
            "Every constructed cell of every generated input is compared with an independent brute-force intersection of all bisector half-spaces (volume, first moment, vertex set, per-neighbour face area and area moment, wall faces) and every vertex is tested against every site. Exploration: held on the executions produced, nothing more.",
            "trusts the reference clipper in harness/vcore/src/refcell.rs (cross-checked against closed forms and Qhull in thorough) and the tolerance model of DESIGN 5.3", "6/C01"),
    "C02": ("runtime monitoring: conservation monitor (sum of cell measures = closed-form box measure, each measure positive) after every full build, both construction routes",
            "Conservation law checked at the quiescent point after each of thousands of seeded builds (1D/2D/3D, periodic or not, anisotropic boxes, large offsets).",
            "box measure computed by the harness from its own input; positivity judged against the reference measure when a cell is non-positive", "6/C02"),
    "C03": ("runtime monitoring: all-pairs history check over the non-symmetric face integrals (each face seen from both sides) + structural walk of the compact face list + antisymmetric flux conservation",
            "Every face of every constructed cell is matched with the face seen from the other side (area, shifted area moment, opposite normal), storage multiplicity is counted, and an antisymmetric flux is summed over all cells.",
            "tolerance model of DESIGN 5.3 for the two cells sharing a face", "6/C03"),
    "C04": ("runtime monitoring: per-face and per-cell invariant monitor (unit outward normal, centroid on bisector/wall, closure sum A n = 0, divergence theorem) on both construction routes and on the faces that build_voronoi_cells leaves in caller-owned vectors",
            "Invariants evaluated on every face/cell of thousands of seeded builds, including partial builds.",
            "tolerance model of DESIGN 5.3", "6/C04"),
    "C05": ("runtime monitoring: totality monitor (catch_unwind, non-finite, watchdog) in release and debug-assertion builds on tie-rich seeded families and a fixed hostile corpus with per-input baseline; in-situ oracle check of every logged exact tie decision (sign, orientation, grid point = image of its position); clustered and zoom inputs of the conditioned domain; Miri and valgrind legs",
            "The real builder is run on degenerate inputs under panic capture; every exact decision recorded by the hook is re-evaluated by an independent integer oracle; outputs go through the C01-C04 oracles.",
            "fixed corpus + known_findings.json define which degenerate inputs are expected to fail on the pinned tree; integer oracle vcore::wide", "6/C05"),
    "C06": ("runtime monitoring: metamorphic monitors (periodic build vs non-periodic build of the 3^d-replicated set, shift-lattice invariants, translation invariance) + reference-model comparison on periodic inputs",
            "Three metamorphic relations plus the brute-force reference on every periodic input generated.",
            "the 3^d block is sufficient for the infinite replication (any farther image is dominated by a nearer image of the same generator)", "6/C06"),
    "C07": ("runtime monitoring: differential monitor full vs partial build (bitwise on cells, keyed face sets), face book-keeping invariants, exhaustive masks for small n",
            "Every mask generated (all 2^n masks for small n) is built through both partial routes and compared with the full build.",
            "the full build of the same input is the oracle", "6/C07"),
    "C08": ("runtime monitoring: differential monitors (garbage in unused coordinates -> bitwise identical digest; 1D closed form; 2D vs 3D slab) and normal-subspace invariants",
            "Builds differing only in unused coordinates must be bitwise identical; 1D results are compared with the sorted-midpoint closed form, 2D results with the 3D build of the same generators in a unit slab.",
            "closed form computed in the harness; the 3D build is trusted only through C01", "6/C08"),
    "C09": ("runtime monitoring: determinism monitor (digests across rayon pools of 1..64 threads, repeats, injected schedule jitter, no-rayon build) with measured schedule diversity; history-independence and call-sequence monitors (same call after other calls / on cloned and converted objects vs fresh objects, bitwise); ThreadSanitizer and Miri data-race legs",
            "Digest equality across many observed schedules (distinct cell-start orders are counted through the on_cell_start hook); TSan and Miri watch the same parallel loops for races.",
            "schedules are sampled, not enumerated; races in code the workload does not reach are invisible", "6/C09"),
    "C10": ("runtime monitoring: direct predicate monitor against an independent fixed-width integer determinant (exhaustive small grids, random and adversarial 52-bit tuples), grid-map domain/monotonicity monitor, in-situ orientation / sign / grid-point-image check of logged tie decisions, incl. many-plane cells in boxes of 1e-15 and 1e-30 where every decision is exact",
            "The real predicate is called on millions of tuples (exhaustively on {0,1}^3 / {0,1,2}^3 and translated to the top of the range) and compared with an independent oracle; the position->grid map is monitored on every position the algorithm can query.",
            "oracle vcore::wide (cross-checked with Python integers in thorough)", "6/C10"),
    "C11": ("runtime monitoring: differential monitor over four builds of the library (ibig, dashu, malachite, num_bigint): per-case digests and predicate sign sequences must be identical and equal to the integer oracle",
            "The same seeded corpus of tuples and tie-rich tessellations is run through four separately compiled binaries; their per-case outputs are diffed.",
            "rug cannot be built offline in this sandbox (needs m4 / newer GMP) and is not covered", "6/C11"),
    "C12": ("runtime monitoring: structural invariant walk of the cell-face index structure at the quiescent point after every build (both routes, masks, all dimensionalities)",
            "Definition of the index structure recomputed from the face list and compared, for constructed and unconstructed cells.",
            "none beyond the harness code", "6/C12"),
    "C13": ("runtime monitoring: differential monitor direct vs integrator route (bitwise digests), the conversion primitive build_voronoi_cells called directly and repeatedly, integral vectors vs stored values, set algebra sym vs non-sym, integral lists of the with-faces integrator vs the plain one",
            "Both routes are run on every generated input and compared bitwise.",
            "none beyond the harness code", "6/C13"),
    "C14": ("runtime monitoring: a genuine downstream crate implementing the four integral traits; its integrals are the monitors (moments up to degree 2 vs reference polytope, plane residuals of base triangles, data-tag alignment, with/without faces)",
            "The custom integrals record what they are fed on every cell of seeded inputs; moments are compared with the reference polytope.",
            "'every downstream implementation' is witnessed by the implementations in harness/vcustom; integrands up to degree 2", "6/C14"),
    "C15": ("runtime monitoring: polytope invariant walk over every ConvexCell<WithFaces> (plane residuals, half-space membership, incidence, convexity/orientation, shoelace area, Euler relation, round trip) + Miri / debug-assertion legs for the unchecked accessors and the transmute",
            "Invariants evaluated on every with-faces cell of seeded 3D inputs; the unsafe sites run under Miri and with ub_checks.",
            "tolerance model of DESIGN 5.3", "6/C15"),
    "C16": ("runtime monitoring: bound monitor (safety radius vs farthest vertex of implementation and reference cell, vs neighbour distances), metamorphic add-far-generators histories, in-situ termination check on the candidate trace",
            "Bound checked on every cell; metamorphic histories add generators beyond the safety radius and require the cell to stay unchanged.",
            "reference clipper for the farthest vertex", "6/C16"),
    "C17": ("runtime monitoring: history check of the complete neighbour visit sequence (hooked iterator) against a brute-force sorted list of all (generator, image) distances; in-situ prefix check on real builds; history variants (same positions, other dimensionality / periodic flag, consecutive on one thread)",
            "Complete visit sequences for sampled queries: self first, every (generator, image) exactly once, lattice shifts, non-decreasing distance up to rounding.",
            "ordering tolerance K u (M+d) d from DESIGN 6/C17", "6/C17"),
    "C18": ("runtime monitoring: differential monitor of the real clip primitive over vertex-array permutations and dual rotations (exhaustive for small removed sets) on cells reached by the real builder",
            "The builder's own clip sequence is replayed; before each clip the vertex array is permuted / rotated and the canonical result compared.",
            "removed sets above 6 vertices are sampled", "6/C18"),
    "C19": ("runtime monitoring: property monitors on the public geometry helpers (defining equations with condition-number aware tolerances) over random and structured arguments",
            "Defining equations evaluated on hundreds of thousands of argument tuples.",
            "arguments with condition number above 1e8 are counted as inconclusive", "6/C19"),
    "C20": ("runtime monitoring: reference-model monitors (brute-force k-NN; brute-force minimal enclosing ball over all 2/3/4-subsets; containment) on the hooked internal structures",
            "k-NN rows compared with brute force as distance sequences; Welzl compared with the brute-force minimum; Epos6 containment.",
            "none beyond the harness code", "6/C20"),
}

# properties whose check is registered (monitor built and silent on the unchanged tree)
CLAIMED = ["C%02d" % i for i in range(1, 21)]
NOT_BUILT_REASON = "monitor designed in DESIGN.md section 6 but not yet built/validated in this session; not claimed until its check runs silently on the unchanged tree"

HOOK_COMMITS = ["a46765c", "574d714"]


def main():
    checks = []
    for pid in CLAIMED:
        tech, text, note, ref = CHECKS[pid]
        checks.append({
            "property_id": pid,
            "quick_cmd": f"./check {pid} quick",
            "thorough_cmd": f"./check {pid} thorough",
            "evidence_file": f"evidence/{pid}.json",
            "replay_cmd_template": f"./check {pid} --replay {{path}}",
            "engine": "vmon",
            "level_claimed": {"category": "exploration", "text": text, "design_ref": f"DESIGN.md section {ref}"},
            "level_note": note,
            "technique": tech,
        })
    na = [{"property_id": pid, "reason": NOT_BUILT_REASON} for pid in sorted(CHECKS) if pid not in CLAIMED]
    m = {
        "version": 1,
        "setup_cmd": "./check setup",
        "hooks": {
            "guard": "cargo feature `verif` of meshless_voronoi (off by default)",
            "enable": "the harness depends on meshless_voronoi by path (/repo) with features = [\"verif\"]; every check rebuilds from /repo's working tree",
            "baseline_off_cmd": "cd /repo && cargo test --workspace --no-fail-fast --offline",
            "source_commits": HOOK_COMMITS,
            "add_only": True,
        },
        "engines": [
            {"name": "vmon", "path": "harness/vmon", "serves_properties": CLAIMED,
             "kind_free_text": "Rust binary linking the real library (feature verif) with the monitors; driven by ./check"},
        ],
        "checks": checks,
        "not_applicable": na,
        "notes": "Technique family: runtime monitoring and sanitizers. Exit codes of ./check: 0 held on everything explored, 1 VIOLATION line(s), 2 BROKEN (infrastructure). Known findings: known_findings.json.",
    }
    with open(os.path.join(VERIF, "MANIFEST.json"), "w") as f:
        json.dump(m, f, indent=1)
        f.write("\n")
    # validate
    try:
        import jsonschema
        schema = json.load(open("/root/.vp/MANIFEST.schema.json"))
        jsonschema.validate(m, schema)
        print("MANIFEST.json valid;", len(checks), "claimed,", len(na), "not claimed")
    except ImportError:
        print("jsonschema not available; wrote MANIFEST.json without validation")


if __name__ == "__main__":
    main()
