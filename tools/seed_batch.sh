#!/usr/bin/env bash
# tools/seed_batch.sh "<name> <check> [<check> ...]" ...   process several candidates from /tmp/seedwork one after the other in the lab
# (tools/lab.sh): confirm each in a scratch worktree, then run the listed quick checks against it. Log per candidate:
# /tmp/seedwork/<name>/result.log; one summary line per check is printed.
set -u
T="$(cd "$(dirname "${BASH_SOURCE[0]}")" && pwd)"
LAB="${LAB:-/tmp/lab}"
export SEED_REPO=$LAB/repo SEED_VERIF=$LAB/verif SEED_OUT=$LAB/out CONFIRM_WT=$LAB/confirm
for spec in "$@"; do
    # shellcheck disable=SC2086
    "$T/seed_process.sh" $spec | grep -E "^(CONFIRMED|REJECTED|SEEDTRY)" | cut -c1-330
done
