# C10 extra legs (sourced by ./check): a sample of tuples is re-evaluated with Python integers and exact rationals
if true; then
    run_leg pyexport "$VMON" C10 --tier "$TIER" --seed "$SEED" --verif-dir "$VERIF" --out-dir "$OUT" --leg pyexport
    python3 "$VERIF/pyref/insphere_check.py" "$OUT/evidence/legs/C10.py_export.json" "$OUT/evidence/legs/C10.python_result.json"
    prc=$?
    if [ $prc -eq 3 ]; then
        echo "VIOLATION property=C10 replay=$OUT/evidence/legs/C10.python_result.json"
        echo "  [c10.python_oracle] Python integers / exact rationals disagree with the library or with the harness oracle on some tuples"
        status=1
    elif [ $prc -ne 0 ]; then echo "INCONCLUSIVE property=C10 the Python cross-check could not run (exit $prc)"; fi
    rm -f "$OUT/evidence/legs/C10.py_export.json"
fi
