#!/usr/bin/env bash
# tools/seed_confirm.sh <dir containing patch.diff and demo.rs> <name>
# Confirms in a scratch worktree (outside /repo and /verif) that a seeded change (1) applies, (2) compiles,
# (3) leaves the existing suite as it was (only test_non_perturbed_z failing), (4) makes the demonstration fail,
# and that (5) the demonstration passes without the change.  Prints CONFIRMED or REJECTED with the reason.
set -u
DIR="$(readlink -f "$1")"; NAME="$2"
WT="${CONFIRM_WT:-/tmp/wt/confirm}"
export CARGO_NET_OFFLINE=true
if [ ! -d "$WT" ]; then git -C /repo worktree add --detach "$WT" HEAD >/dev/null 2>&1 || exit 2; fi
cd "$WT" || exit 2
git checkout -q --detach "$(git -C /repo rev-parse HEAD)" 2>/dev/null
git checkout -- . ; rm -f tests/demo_*.rs
FEAT=""
if grep -q "verif" "$DIR/demo.rs"; then FEAT="--features verif"; fi
# a file `cargo_args` next to the patch overrides the cargo feature selection for the DEMONSTRATION (e.g. another back end);
# the existing suite is always run with the default features
DEMOFEAT="$FEAT"
if [ -f "$DIR/cargo_args" ]; then DEMOFEAT="$(cat "$DIR/cargo_args")"; fi
cp "$DIR/demo.rs" "tests/demo_$NAME.rs"
git apply "$DIR/patch.diff" || { echo "REJECTED $NAME: patch does not apply"; exit 1; }
out=$(cargo test --offline --no-fail-fast $FEAT 2>&1)
if [ "$DEMOFEAT" != "$FEAT" ]; then
    outd=$(cargo test --offline --no-fail-fast $DEMOFEAT --test "demo_$NAME" 2>&1)
    out="$out
     Running tests/demo_$NAME.rs (with $DEMOFEAT)
$(echo "$outd" | grep -E "^test |^error")"
fi
if echo "$out" | grep -q "^error\(\[E\|: could not compile\)"; then echo "REJECTED $NAME: does not compile"; echo "$out" | grep -E "^error" -A6 | head -20; git checkout -- .; exit 1; fi
failed=$(echo "$out" | grep -E "^test .* FAILED$" | sed 's/^test //; s/ \.\.\. FAILED//' | sort -u)
suite_failed=$(echo "$failed" | grep -v "^$" | grep -v "test_non_perturbed_z" | grep -vE "^(demo|test_demo|.*demo)" || true)
# tests of the demo file are the ones listed in its own "Running tests/demo_" section
demo_section=$(echo "$out" | awk '/Running tests\/demo_/{f=1} f{print} /^test result:/{if(f){exit}}')
demo_failed=$(echo "$demo_section" | grep -cE "^test .* FAILED$")
if [ "$DEMOFEAT" != "$FEAT" ]; then demo_failed=$(echo "$outd" | grep -cE "^test .* FAILED$"); fi
lib_line=$(echo "$out" | grep -E "^test result:" | head -1)
echo "  with change: lib: $lib_line"
echo "  with change: demo failures: $demo_failed"
others=$(echo "$out" | awk '/Running tests\/demo_/{f=1} /Running/{ if ($0 !~ /demo_/) f=0 } !f{print}' | grep -E "^test .* FAILED$" | grep -v test_non_perturbed_z || true)
git checkout -- .
out2=$(cargo test --offline --no-fail-fast $DEMOFEAT --test "demo_$NAME" 2>&1)
clean_failed=$(echo "$out2" | grep -cE "^test .* FAILED$")
clean_passed=$(echo "$out2" | grep -E "^test result:" | head -1)
echo "  without change: demo: $clean_passed"
rm -f "tests/demo_$NAME.rs"
if [ -n "$others" ]; then echo "REJECTED $NAME: existing tests fail with the change: $others"; exit 1; fi
if [ "$demo_failed" -eq 0 ]; then echo "REJECTED $NAME: demonstration does not fail with the change"; exit 1; fi
if [ "$clean_failed" -ne 0 ] || ! echo "$clean_passed" | grep -q "ok\."; then echo "REJECTED $NAME: demonstration does not pass without the change"; exit 1; fi
echo "CONFIRMED $NAME"
