#!/usr/bin/env bash
# tools/snapshot_soak.sh <tier> <seed_from> <seed_to> [ids...]
# For `vp run --with-repo`: silence test inside a snapshot of /verif against the snapshot of /repo's HEAD ($VP_RUN_REPO),
# so that seeded changes applied to /repo meanwhile cannot disturb it. NOT a source of evidence (exploration aid only).
set -u
VERIF="$(cd "$(dirname "${BASH_SOURCE[0]}")/.." && pwd)"
cd "$VERIF" || exit 2
if [ -n "${VP_RUN_REPO:-}" ]; then
    sed -i "s#path = \"/repo\"#path = \"$VP_RUN_REPO\"#" harness/*/Cargo.toml
fi
./check setup >/dev/null 2>&1 || echo "setup failed"
exec tools/soak.sh "$@"
