# C09 extra legs (sourced by ./check)
# (1) the sequential build (library without the rayon feature): digests of the same cases, compared by the main leg
build "vmon (no rayon)" build --offline --release -p vmon --no-default-features --features b_ibig --target-dir "$H/target/nopar"
run_leg norayon "$H/target/nopar/release/vmon" C09 --tier "$TIER" --seed "$SEED" --verif-dir "$VERIF" --out-dir "$OUT" --leg norayon
# (2) ThreadSanitizer on the parallel loops (std rebuilt with the sanitizer; one sanitizer per build)
. "$VERIF/tools/san.sh"
tsan_leg C09
# (3) thorough: Miri (tree borrows, data-race detector) on tiny inputs with 3 worker threads
if [ "$TIER" = thorough ]; then miri_leg C09 rayon 4; fi
