#!/usr/bin/env bash
# tools/seed_process.sh <name> <check> [<check> ...]   confirm a candidate seeded change in /tmp/seedwork/<name> in a scratch
# worktree (seed_confirm.sh; skipped when an earlier run already confirmed it) and, when confirmed, run the quick checks against it
# (seed_try.sh). Log: /tmp/seedwork/<name>/result.log
set -u
NAME="$1"; shift
D=/tmp/seedwork/$NAME
T="$(cd "$(dirname "${BASH_SOURCE[0]}")" && pwd)"
if grep -q "^CONFIRMED $NAME" "$D/result.log" 2>/dev/null; then
    grep -E "with change|without change|^CONFIRMED" "$D/result.log" > "$D/result.log.new"; mv "$D/result.log.new" "$D/result.log"
    cat "$D/result.log"
    "$T/seed_try.sh" "$D/patch.diff" "$@" 2>&1 | grep -v "conda" | tee -a "$D/result.log"
    exit 0
fi
{
  "$T/seed_confirm.sh" "$D" "$NAME"
  if [ $? -eq 0 ]; then "$T/seed_try.sh" "$D/patch.diff" "$@"; fi
} 2>&1 | grep -v "conda" | tee "$D/result.log"
