# C01 extra legs (sourced by ./check): thorough runs the same monitors in an AddressSanitizer build
if [ "$TIER" = thorough ]; then
    . "$VERIF/tools/san.sh"
    asan_leg C01
fi
