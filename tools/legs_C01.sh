# C01 extra legs (sourced by ./check): thorough runs the same monitors in an AddressSanitizer build
if [ "$TIER" = thorough ]; then
    . "$VERIF/tools/san.sh"
    asan_leg C01
fi
if true; then
    # who checks the checker: the reference clipper (and the implementation) against Qhull on general-position inputs.
    # A disagreement between the two references is an oracle problem: reported as INCONCLUSIVE, never a verdict.
    run_leg qhull "$VMON" C01 --tier "$TIER" --seed "$SEED" --verif-dir "$VERIF" --out-dir "$OUT" --leg qhull
    if command -v python3-vt >/dev/null 2>&1; then
        python3-vt "$VERIF/pyref/qhull_check.py" "$OUT/evidence/legs/C01.qhull_export.json" "$OUT/evidence/legs/C01.qhull_result.json"
        qrc=$?
        if [ $qrc -eq 3 ]; then echo "INCONCLUSIVE property=C01 the reference clipper and Qhull disagree on some exported cells (see $OUT/evidence/legs/C01.qhull_result.json)";
        elif [ $qrc -ne 0 ]; then echo "INCONCLUSIVE property=C01 the Qhull cross-check could not run (exit $qrc)"; fi
    else
        echo "INCONCLUSIVE property=C01 python3-vt (scipy) not available: Qhull cross-check skipped"
    fi
    rm -f "$OUT/evidence/legs/C01.qhull_export.json"
fi
