#!/usr/bin/env python3
"""Classify ThreadSanitizer report blocks of a log: a block is INTERNAL to the work-stealing runtime when, walking each
of its access stacks from the innermost frame, a rayon_core / crossbeam frame is reached before any frame of the code
under test (meshless_voronoi, vmon, vcore).  The Chase-Lev deque of crossbeam reads job slots with read_volatile and
validates them afterwards with a compare-exchange; ThreadSanitizer cannot see that protocol and reports it now and
then.  Everything else (also blocks without any recognisable frame) counts as RELEVANT.
usage: tsan_filter.py <log>   -> prints 'relevant=<n> internal=<m>' and the first relevant block"""
import re, sys
txt = open(sys.argv[1], errors="replace").read()
blocks = re.split(r"(?=WARNING: ThreadSanitizer)", txt)
blocks = [b for b in blocks if b.startswith("WARNING: ThreadSanitizer")]
relevant, internal = [], 0
for b in blocks:
    # access stacks: the paragraphs that start with "Read of", "Write of", "Previous read/write", "Atomic ..."
    stacks = re.findall(r"(?:^|\n)\s*(?:Previous )?(?:[Aa]tomic )?(?:[Rr]ead|[Ww]rite) of size.*?\n((?:\s+#\d+ .*\n)+)", b)
    if not stacks:
        relevant.append(b); continue
    verdicts = []
    for st in stacks:
        v = "unknown"
        for line in st.splitlines():
            if re.search(r"rayon_core::|crossbeam_deque|crossbeam_epoch", line):
                v = "runtime"; break
            if re.search(r"meshless_voronoi|vmon::|vcore::", line):
                v = "code"; break
        verdicts.append(v)
    if all(v == "runtime" for v in verdicts):
        internal += 1
    else:
        relevant.append(b)
print(f"relevant={len(relevant)} internal={internal}")
if relevant:
    print("\n".join(relevant[0].splitlines()[:30]))
