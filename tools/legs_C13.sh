# C13 extra legs (sourced by ./check)
# the same monitors against the library built WITHOUT the rayon feature (the sequential #[cfg(not(feature = "rayon"))]
# code paths are separate code)
build "vmon (no rayon)" build --offline --release -p vmon --no-default-features --features b_ibig --target-dir "$H/target/nopar"
run_leg norayon "$H/target/nopar/release/vmon" C13 --tier "$TIER" --seed "$SEED" --verif-dir "$VERIF" --out-dir "$OUT" --leg norayon
