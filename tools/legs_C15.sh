# C15 extra legs (sourced by ./check)
# (1) debug-assertion build: every debug_assert! and the ub_checks inside unwrap_unchecked are compiled in
build_relcheck
run_leg relcheck "$VMON_RC" C15 --tier "$TIER" --seed "$SEED" --verif-dir "$VERIF" --out-dir "$OUT" --leg relcheck
. "$VERIF/tools/san.sh"
# (2) Miri (stacked borrows, no rayon): unchecked accessors, transmute, both decomposition routes, clone, round trip;
#     two shards (two tiny inputs each, ~20 s) in the quick tier, eight in thorough
if [ "$TIER" = quick ]; then miri_leg C15 norayon 2; fi
if [ "$TIER" = thorough ]; then
    miri_leg C15 norayon 8
    # (3) valgrind memcheck on the plain release binary
    valgrind_leg C15
fi
# the same monitors against the library built WITHOUT the rayon feature (the sequential #[cfg(not(feature = "rayon"))]
# code paths are separate code)
build "vmon (no rayon)" build --offline --release -p vmon --no-default-features --features b_ibig --target-dir "$H/target/nopar"
run_leg norayon "$H/target/nopar/release/vmon" C15 --tier "$TIER" --seed "$SEED" --verif-dir "$VERIF" --out-dir "$OUT" --leg norayon
