#!/usr/bin/env bash
# tools/lab.sh [sync]   a "lab" for trying seeded changes without touching /repo: ${LAB}/repo = detached worktree of /repo's HEAD,
# ${LAB}/verif = copy of /verif (without build output) whose harness depends on ${LAB}/repo. First call builds everything
# (./check setup in the lab); later calls only re-sync the sources. Use: SEED_REPO=${LAB}/repo SEED_VERIF=${LAB}/verif tools/seed_try.sh ...
# Nothing in the lab is evidence; remove it with: git -C /repo worktree remove --force ${LAB}/repo; rm -rf ${LAB}
set -u
LAB="${LAB:-/tmp/lab}"
mkdir -p ${LAB}
if [ ! -d ${LAB}/repo ]; then git -C /repo worktree add --detach ${LAB}/repo HEAD >/dev/null 2>&1 || exit 2; fi
git -C ${LAB}/repo checkout -q --detach "$(git -C /repo rev-parse HEAD)"; git -C ${LAB}/repo checkout -- .
rsync -a --delete --exclude target --exclude evidence --exclude replay --exclude soak_out --exclude sweep_out --exclude .git /verif/ ${LAB}/verif/
mkdir -p ${LAB}/verif/evidence
sed -i "s#path = \"/repo\"#path = \"${LAB}/repo\"#" ${LAB}/verif/harness/*/Cargo.toml
grep -rl '"/repo' ${LAB}/verif/tools ${LAB}/verif/check 2>/dev/null | head
if [ "${1:-}" != "sync" ] || [ ! -d ${LAB}/verif/harness/target ]; then (cd ${LAB}/verif && ./check setup >${LAB}/setup.log 2>&1; echo "lab setup exit $?"); fi
