#!/usr/bin/env bash
# tools/lab.sh [sync]   a "lab" for trying seeded changes without touching /repo: /tmp/lab/repo = detached worktree of /repo's HEAD,
# /tmp/lab/verif = copy of /verif (without build output) whose harness depends on /tmp/lab/repo. First call builds everything
# (./check setup in the lab); later calls only re-sync the sources. Use: SEED_REPO=/tmp/lab/repo SEED_VERIF=/tmp/lab/verif tools/seed_try.sh ...
# Nothing in the lab is evidence; remove it with: git -C /repo worktree remove --force /tmp/lab/repo; rm -rf /tmp/lab
set -u
mkdir -p /tmp/lab
if [ ! -d /tmp/lab/repo ]; then git -C /repo worktree add --detach /tmp/lab/repo HEAD >/dev/null 2>&1 || exit 2; fi
git -C /tmp/lab/repo checkout -q --detach "$(git -C /repo rev-parse HEAD)"; git -C /tmp/lab/repo checkout -- .
rsync -a --delete --exclude target --exclude evidence --exclude replay --exclude soak_out --exclude sweep_out --exclude .git /verif/ /tmp/lab/verif/
mkdir -p /tmp/lab/verif/evidence
sed -i 's#path = "/repo"#path = "/tmp/lab/repo"#' /tmp/lab/verif/harness/*/Cargo.toml
grep -rl '"/repo' /tmp/lab/verif/tools /tmp/lab/verif/check 2>/dev/null | head
if [ "${1:-}" != "sync" ] || [ ! -d /tmp/lab/verif/harness/target ]; then (cd /tmp/lab/verif && ./check setup >/tmp/lab/setup.log 2>&1; echo "lab setup exit $?"); fi
