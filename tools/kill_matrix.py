#!/usr/bin/env python3
"""Print the kill matrix (markdown) of the seeded changes in /verif/seeded from their meta.json files."""
import json, glob, os
rows = []
for d in sorted(glob.glob("/verif/seeded/*/meta.json")):
    m = json.load(open(d))
    det = ", ".join(f"{x['check']} {x['tier']}" + (f" ({x['violations']})" if 'violations' in x else "") for x in m["detected_by"])
    mis = ", ".join(f"{x['check']} {x['tier']}" for x in m["missed_by"])
    rows.append(f"| {m['id']} | {m['breaks_property']} | {m['what']} | {m['needs_to_manifest']} | {det} | {mis or '-'} |")
print("| id | property | change | needs to manifest | caught by (violations reported) | also run, silent |")
print("|----|----------|--------|-------------------|----------------------------------|------------------|")
print("\n".join(rows))
