# Sanitizer legs (sourced by tools/legs_<ID>.sh).  One sanitizer per build; a report fails the leg.
# Each leg runs the real vmon monitors of property <ID> with `--leg <name>` (reduced workload sizes are chosen by the
# monitor from the leg name) and records what was instrumented in evidence/legs/<ID>.<name>*.json.

TRIPLE=x86_64-unknown-linux-gnu
LEGDIR="$OUT/evidence/legs"

san_note() { # $1 = leg, $2 = tool, $3 = report blocks, $4 = log, $5 = process runs
    printf '{"leg":"%s","tool":"%s","report_blocks":%s,"log":"%s","instrumented_process_runs":%s}\n' "$1" "$2" "$3" "$4" "$5" > "$LEGDIR/$ID.$1.tool.json"
}

tsan_leg() { # $1 = ID [extra vmon args...]
    local id="$1"; shift
    local out
    if ! out=$(RUSTFLAGS="-Zsanitizer=thread" cargo +nightly build --offline --release -Zbuild-std --target $TRIPLE -p vmon --target-dir "$H/target/tsan" 2>&1); then
        echo "$out" | grep -E "^error" -A8 | head -30
        echo "BROKEN: cannot build vmon with ThreadSanitizer"; exit 2
    fi
    local log="$LEGDIR/$id.tsan.log"
    log "leg tsan: vmon $id --leg tsan"
    TSAN_OPTIONS="halt_on_error=0 exitcode=0 second_deadlock_stack=1" "$H/target/tsan/$TRIPLE/release/vmon" "$id" --tier "$TIER" --seed "$SEED" --verif-dir "$VERIF" --out-dir "$OUT" --leg tsan "$@" 2> "$log"
    local rc=$?
    # report blocks whose racing accesses both lie inside the work-stealing deque of rayon/crossbeam (read_volatile +
    # later validation, invisible to TSan) are counted separately and are not a verdict on the code under test
    local cls; cls=$(python3 "$VERIF/tools/tsan_filter.py" "$log")
    local n; n=$(echo "$cls" | head -1 | sed 's/relevant=\([0-9]*\).*/\1/')
    local ni; ni=$(echo "$cls" | head -1 | sed 's/.*internal=\([0-9]*\).*/\1/')
    san_note tsan ThreadSanitizer "$n" "$log" 1
    printf '{"leg":"tsan_runtime_internal","report_blocks_inside_rayon_crossbeam_deque":%s}\n' "${ni:-0}" > "$LEGDIR/$id.tsan_internal.tool.json"
    if [ "${n:-0}" -gt 0 ]; then
        echo "VIOLATION property=$id replay=$log"
        echo "  [tsan] $n ThreadSanitizer report block(s) involving the code under test; first: $(echo "$cls" | sed -n '2,6p' | tr '\n' ' ' | cut -c1-300)"
        status=1
    elif [ $rc -eq 1 ]; then status=1
    elif [ $rc -ne 0 ] && [ $status -eq 0 ]; then echo "BROKEN: tsan leg exited with $rc"; tail -5 "$log"; status=2; fi
}

asan_leg() { # $1 = ID [extra vmon args...]
    local id="$1"; shift
    local out
    if ! out=$(RUSTFLAGS="-Zsanitizer=address -Cforce-frame-pointers=yes" cargo +nightly build --offline --release --target $TRIPLE -p vmon --target-dir "$H/target/asan" 2>&1); then
        echo "$out" | grep -E "^error" -A8 | head -30
        echo "BROKEN: cannot build vmon with AddressSanitizer"; exit 2
    fi
    local log="$LEGDIR/$id.asan.log"
    log "leg asan: vmon $id --leg asan"
    ASAN_OPTIONS="halt_on_error=1 detect_leaks=1 abort_on_error=0 exitcode=77" "$H/target/asan/$TRIPLE/release/vmon" "$id" --tier "$TIER" --seed "$SEED" --verif-dir "$VERIF" --out-dir "$OUT" --leg asan "$@" 2> "$log"
    local rc=$?
    local n; n=$(grep -c "ERROR: AddressSanitizer\|ERROR: LeakSanitizer" "$log")
    san_note asan AddressSanitizer "$n" "$log" 1
    if [ "$n" -gt 0 ] || [ $rc -eq 77 ]; then
        echo "VIOLATION property=$id replay=$log"
        echo "  [asan] AddressSanitizer report: $(grep -m1 -A2 'ERROR: ' "$log" | tr '\n' ' ' | cut -c1-300)"
        status=1
    elif [ $rc -eq 1 ]; then status=1
    elif [ $rc -ne 0 ] && [ $status -eq 0 ]; then echo "BROKEN: asan leg exited with $rc"; tail -5 "$log"; status=2; fi
}

valgrind_leg() { # $1 = ID [extra vmon args...]   (plain release binary under memcheck; ~40x)
    local id="$1"; shift
    local log="$LEGDIR/$id.valgrind.log"
    log "leg valgrind: vmon $id --leg valgrind"
    VERIF_JOBS=4 valgrind --tool=memcheck --error-exitcode=88 --errors-for-leak-kinds=definite --leak-check=full --num-callers=20 -q "$VMON" "$id" --tier "$TIER" --seed "$SEED" --verif-dir "$VERIF" --out-dir "$OUT" --leg valgrind "$@" 2> "$log"
    local rc=$?
    local n; n=$(grep -c "^==[0-9]*== \(Invalid\|Conditional jump\|Use of uninitialised\|Mismatched\|.*definitely lost\)" "$log")
    san_note valgrind memcheck "$n" "$log" 1
    if [ $rc -eq 88 ] || [ "$n" -gt 0 ]; then
        echo "VIOLATION property=$id replay=$log"
        echo "  [valgrind] memcheck reported $n error(s): $(grep -m1 '^==[0-9]*== [A-Z]' "$log" | cut -c1-200)"
        status=1
    elif [ $rc -eq 1 ]; then status=1
    elif [ $rc -ne 0 ] && [ $status -eq 0 ]; then echo "BROKEN: valgrind leg exited with $rc"; tail -5 "$log"; status=2; fi
}

miri_leg() { # $1 = ID, $2 = rayon|norayon, $3 = number of shards (processes)
    local id="$1" mode="$2" shards="$3"
    local feat flags
    if [ "$mode" = rayon ]; then
        feat=""; flags="-Zmiri-disable-isolation -Zmiri-tree-borrows -Zmiri-ignore-leaks"
    else
        feat="--no-default-features --features b_ibig"; flags="-Zmiri-disable-isolation"
    fi
    log "leg miri ($mode, $shards shards): vmon $id --leg miri<k>"
    local pids=() k
    # build once (first shard compiles, the others wait on the cargo lock)
    for k in $(seq 1 "$shards"); do
        ( cd "$H" && MIRIFLAGS="$flags" VERIF_JOBS=1 cargo +nightly miri run --offline -q -p vmon $feat --target-dir "$H/target/miri_$mode" -- "$id" --tier "$TIER" --seed $((SEED * 100 + k)) --verif-dir "$VERIF" --out-dir "$OUT" --leg "miri$k" > "$LEGDIR/$id.miri$k.out" 2> "$LEGDIR/$id.miri$k.log" ) &
        pids+=($!)
    done
    local bad=0 broken=0 viol=0
    for k in $(seq 1 "$shards"); do
        wait "${pids[$((k-1))]}"; local rc=$?
        cat "$LEGDIR/$id.miri$k.out" | grep -E "^(LEG|VIOLATION|  \[)" | head -5
        if grep -q "error: Undefined Behavior\|error: unsupported operation\|Data race detected\|error: memory leaked" "$LEGDIR/$id.miri$k.log"; then
            bad=$((bad+1))
            echo "VIOLATION property=$id replay=$LEGDIR/$id.miri$k.log"
            echo "  [miri] $(grep -m1 -A4 '^error' "$LEGDIR/$id.miri$k.log" | tr '\n' ' ' | cut -c1-400)"
        elif [ $rc -eq 1 ]; then viol=1
        elif [ $rc -ne 0 ]; then broken=1; echo "miri shard $k exited with $rc: $(tail -3 "$LEGDIR/$id.miri$k.log" | tr '\n' ' ' | cut -c1-300)"; fi
    done
    san_note miri "Miri ($mode)" "$bad" "$LEGDIR/$id.miri*.log" "$shards"
    if [ $bad -gt 0 ] || [ $viol -eq 1 ]; then status=1
    elif [ $broken -eq 1 ] && [ $status -eq 0 ]; then echo "BROKEN: a Miri shard could not run"; status=2; fi
}
