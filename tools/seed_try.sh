#!/usr/bin/env bash
# tools/seed_try.sh <patch.diff> <ID> [<ID> ...]   apply a seeded change to /repo, run the quick checks of the given
# properties with output redirected to /tmp/seedtry, and undo the change again. Prints one verdict line per check.
set -u
PATCH="$(readlink -f "$1")"; shift
TIER="${SEED_TIER:-quick}"
# SEED_REPO / SEED_VERIF: run in a "lab" (tools/lab.sh: a worktree of /repo plus a copy of /verif whose harness points at it) so that
# seeded changes can be tried while /repo itself stays untouched and usable
REPO="${SEED_REPO:-/repo}"; VERIF="${SEED_VERIF:-/verif}"
cd "$REPO" || exit 2
if ! git -C "$REPO" diff --quiet; then echo "refusing: $REPO has uncommitted changes"; exit 2; fi
git -C "$REPO" apply "$PATCH" || { echo "patch does not apply"; exit 2; }
trap 'git -C "$REPO" checkout -- . ' EXIT
export VERIF_OUT="${SEED_OUT:-/tmp/seedtry}"
mkdir -p $VERIF_OUT
for id in "$@"; do
    start=$(date +%s)
    out=$(cd "$VERIF" && ./check "$id" "$TIER" 2>&1)
    rc=$?
    nv=$(echo "$out" | grep -c "^VIOLATION")
    first=$(echo "$out" | grep -A1 "^VIOLATION" | sed -n 2p | cut -c1-220)
    echo "SEEDTRY $(basename "$(dirname "$PATCH")") check=$id tier=$TIER rc=$rc violations=$nv t=$(( $(date +%s) - start ))s :: $first"
    if [ $rc -eq 2 ]; then echo "$out" | grep -E "BROKEN|^error" -A5 | head -20; fi
done
