#!/usr/bin/env bash
# tools/soak.sh <tier> <seed_from> <seed_to> [ids...]   silence test: run the checks at many seeds, report only alarms.
# Evidence/replay of these runs go to ./soak_out (never into the committed evidence/).
set -u
VERIF="$(cd "$(dirname "${BASH_SOURCE[0]}")/.." && pwd)"
TIER="$1"; FROM="$2"; TO="$3"; shift 3
IDS=("$@"); if [ ${#IDS[@]} -eq 0 ]; then IDS=(C01 C02 C03 C04 C05 C06 C07 C08 C09 C10 C11 C12 C13 C14 C15 C16 C17 C18 C19 C20); fi
export VERIF_OUT="$VERIF/soak_out"; mkdir -p "$VERIF_OUT"
cd "$VERIF"
alarms=0
for seed in $(seq "$FROM" "$TO"); do
    for id in "${IDS[@]}"; do
        s=$(date +%s)
        out=$(VERIF_SEED=$seed ./check "$id" "$TIER" 2>&1); rc=$?
        nv=$(echo "$out" | grep -c "^VIOLATION")
        if [ $rc -ne 0 ] || [ "$nv" -gt 0 ]; then
            alarms=$((alarms+1))
            echo "ALARM seed=$seed id=$id rc=$rc violations=$nv"
            echo "$out" | grep -E "^VIOLATION|^  \[|BROKEN|INCONCLUSIVE" | head -6
            mkdir -p "$VERIF_OUT/kept"; cp $(echo "$out" | grep "^VIOLATION" | sed 's/.*replay=//' | head -3) "$VERIF_OUT/kept/" 2>/dev/null
        else
            echo "ok seed=$seed id=$id t=$(( $(date +%s)-s ))s $(echo "$out" | grep -E '^SUMMARY' | sed 's/.*evaluations/evaluations/' | cut -c1-90) $(echo "$out" | grep -E '^INCONCLUSIVE' | cut -c1-80)"
        fi
    done
done
echo "soak finished: $alarms alarm(s)"
