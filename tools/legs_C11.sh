# C11 extra legs (sourced by ./check): the same seeded corpus through the library built with each other back end
for be in dashu malachite num_bigint; do
    build "vmon (back end $be)" build --offline --release -p vmon --no-default-features --features "par,b_$be" --target-dir "$H/target/b_$be"
    run_leg "$be" "$H/target/b_$be/release/vmon" C11 --tier "$TIER" --seed "$SEED" --verif-dir "$VERIF" --out-dir "$OUT" --leg "$be"
done
