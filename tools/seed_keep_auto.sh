#!/usr/bin/env bash
# tools/seed_keep_auto.sh <name> <property> "<what>" "<needs>"   keep a confirmed candidate from /tmp/seedwork/<name>,
# deriving detected/missed from its result.log (written by seed_process.sh)
set -u
NAME="$1"; PROP="$2"; WHAT="$3"; NEEDS="$4"
D=/tmp/seedwork/$NAME
grep -q "^CONFIRMED $NAME" "$D/result.log" || { echo "not confirmed: $NAME"; exit 1; }
det=$(grep "^SEEDTRY" "$D/result.log" | awk '{split($3,c,"=");split($4,t,"=");split($6,v,"="); if (v[2]>0) printf "%s:%s:%s,", c[2], t[2], v[2]}')
mis=$(grep "^SEEDTRY" "$D/result.log" | awk '{split($3,c,"=");split($4,t,"=");split($6,v,"="); if (v[2]==0) printf "%s:%s,", c[2], t[2]}')
ran="seed_confirm.sh ($(grep 'demo failures' "$D/result.log" | sed 's/.*: //') demo tests fail with the change; $(grep 'without change' "$D/result.log" | sed 's/.*result: //;s/;.*//') without); seed_try.sh $(grep "^SEEDTRY" "$D/result.log" | awk '{split($3,c,"=");printf "%s ", c[2]}')"
python3 "$(dirname "$0")/seed_keep.py" "$NAME" "$PROP" "$D" --what "$WHAT" --needs "$NEEDS" --ran "$ran" --detected "${det%,}" --missed "${mis%,}"
cp "$D/result.log" "/verif/seeded/$NAME/result.log"
