# C05 extra legs (sourced by ./check): the same workload in the debug-assertion build ("debug build" half of C05)
build_relcheck
run_leg relcheck "$VMON_RC" C05 --tier "$TIER" --seed "$SEED" --verif-dir "$VERIF" --out-dir "$OUT" --leg relcheck
if [ "$TIER" = thorough ]; then
    . "$VERIF/tools/san.sh"
    # the exact path (iloc, in_sphere_test_exact with ibig) under Miri, sharded; valgrind on the corpus subset
    miri_leg C05 norayon 8
    valgrind_leg C05
fi
