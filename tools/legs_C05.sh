# C05 extra legs (sourced by ./check): the same workload in the debug-assertion build ("debug build" half of C05)
build_relcheck
run_leg relcheck "$VMON_RC" C05 --tier "$TIER" --seed "$SEED" --verif-dir "$VERIF" --out-dir "$OUT" --leg relcheck
