#!/usr/bin/env bash
# extra builds of setup (back ends, sanitizer builds) - filled in as the legs are added
exit 0
