#!/usr/bin/env bash
# Extra builds of `./check setup`: everything the quick checks would otherwise build on first use (offline, from files
# on disk only). Each check rebuilds incrementally from /repo's working tree anyway; this only warms the caches.
set -u
VERIF="$(cd "$(dirname "${BASH_SOURCE[0]}")/.." && pwd)"
H="$VERIF/harness"
cd "$H" || exit 2
export CARGO_NET_OFFLINE=true
rc=0
step() { echo "[setup] $*" >&2; "$@" >/dev/null 2>&1 || { echo "[setup] FAILED: $*" >&2; rc=1; }; }
step cargo build --offline --release -p vprobe
step cargo build --offline --release -p vcustom
for be in dashu malachite num_bigint; do
    step cargo build --offline --release -p vmon --no-default-features --features "par,b_$be" --target-dir "$H/target/b_$be"
done
step cargo build --offline --release -p vmon --no-default-features --features b_ibig --target-dir "$H/target/nopar"
RUSTFLAGS="-Zsanitizer=thread" step cargo +nightly build --offline --release -Zbuild-std --target x86_64-unknown-linux-gnu -p vmon --target-dir "$H/target/tsan"
# Miri build of the no-rayon harness (quick leg of C15): compiles the dependency graph for the interpreter once
MIRIFLAGS="-Zmiri-disable-isolation" step cargo +nightly miri run --offline -q -p vmon --no-default-features --features b_ibig --target-dir "$H/target/miri_norayon" -- noop
exit $rc
