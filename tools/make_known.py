#!/usr/bin/env python3
"""Regenerate /verif/known_findings.json from the corpus baselines (corpus/baseline.json for the release build,
corpus/baseline.relcheck.json for the debug-assertion build) plus the hand-written class-level and 'fixed' entries
below.  Run after `harness/target/release/vmon C05corpus` and `harness/target/relcheck/vmon C05corpus`.
The checks only READ known_findings.json."""
import json, os
V = os.path.dirname(os.path.dirname(os.path.abspath(__file__)))

FINDING_OF = {  # signature prefix -> finding id / short explanation
    "panic:convex_cell.rs:No suitable vertex": ("F5", "inconsistent float/exact clip decisions leave a removed-vertex set that is not a disk"),
    "panic:geometry.rs:Degenerate": ("F5", "inconsistent clip decisions create a vertex from three dependent planes"),
    "panic:convex_cell.rs:Degenerate point set": ("F5", "coincident generators after rounding"),
    "c01.wall_face": ("F9", "area of a wall face whose plane contains the generator: the triangle sign is taken from the generator"),
    "c04.closure": ("F9/F5", "closure of a cell with a wrong face area"),
    "c04.divergence": ("F9/F5", "divergence identity of a cell with a wrong face area"),
    "exact.": ("F5", "exact tie decision taken on an inverted / contradicted vertex"),
}

def finding(sig):
    for k, v in FINDING_OF.items():
        if sig.startswith(k):
            return v
    return ("F5", "wrong cell after inconsistent clip decisions on a (near-)degenerate input")

known = []
seen = set()
for fn in ("baseline.json", "baseline.relcheck.json"):
    p = os.path.join(V, "corpus", fn)
    if not os.path.exists(p):
        continue
    for e in json.load(open(p))["inputs"]:
        for sig in e["signatures"]:
            key = (e["hash"], sig)
            if key in seen:
                continue
            seen.add(key)
            fid, why = finding(sig)
            known.append({"property": "C05", "case_hash": e["hash"], "signature": sig,
                          "what": f"{fid} {sig} on corpus input {e['origin']} ({why})"})

# class-level entries: only used by the seeded hostile exploration of the thorough tier of C05 (inputs whose provenance
# starts with "C05hostile/": families that no other workload generates) - call site + input class, see DESIGN 3.5.
# On those (near-)degenerate inputs finding F5 (and F9 for generators on walls) makes the builder panic at one of its two
# topology guards or return a wrong cell; HOW a wrong cell shows (which of the output oracles C01-C04 fires first) varies
# from seed to seed, so the class lists every output-oracle signature plus the two panic sites and the two precondition
# monitors of the exact path. Anything else - another panic site, a wrong sign of the exact predicate, a position outside
# the integer grid, a non-finite value, a watchdog - is reported as a violation also on these inputs.
HOSTILE = ["nearlattice", "walls", "cluster", "cosphere", "slabwalls", "nearpairs"]
CLASS_SIGS = [
    "panic:convex_cell.rs:No suitable vertex found to extend boundary!", "panic:geometry.rs:Degenerate -plane intersection!",
    "exact.negative_orientation", "exact.contradicts_true_geometry",
    "c01.cell_missing", "c01.centroid", "c01.face_area", "c01.face_centroid", "c01.face_duplicate", "c01.face_missing",
    "c01.face_spurious", "c01.vertex_closer_to_other_site", "c01.vertex_outside_box", "c01.vertices", "c01.volume",
    "c01.wall_face", "c02.nonpositive", "c02.sum", "c03.face_not_listed_by_both", "c03.flux", "c03.no_reciprocal_face",
    "c03.periodic_area", "c03.periodic_no_reciprocal", "c03.periodic_normal", "c03.reciprocal_area", "c03.reciprocal_centroid",
    "c04.centroid_off_bisector", "c04.centroid_off_wall", "c04.closure", "c04.divergence",
]
by_family = {}
for fn in ("baseline.json", "baseline.relcheck.json"):
    p = os.path.join(V, "corpus", fn)
    if os.path.exists(p):
        for e in json.load(open(p))["inputs"]:
            by_family.setdefault(e["family"], set()).update(e["signatures"])
seen_in_corpus = set().union(*[by_family.get(f, set()) for f in HOSTILE]) if by_family else set()
for fam in HOSTILE:
    for sig in sorted(set(CLASS_SIGS) | seen_in_corpus):
        fid, why = finding(sig)
        known.append({"property": "C05", "family": fam, "origin_prefix": "C05hostile/", "signature": sig,
                      "what": f"{fid} {sig} on seeded inputs of the hostile family '{fam}' ({why})"})

fixed = [
    "fixed: property=C04 4620ad3 VoronoiFace::normal() pointed towards the left generator (witness findings/F8-C04-normal-points-to-left-generator.json)",
    "fixed: property=C12 d5d38a3 neighbour_ids of an unconstructed cell adjacent to constructed cell 0 yielded the cell itself (unconstructed cells were VoronoiCell::default() with idx 0)",
    "fixed: property=C10 243d768 mirror image of a generator on a wall through the opposite wall mapped to scaled coordinate 2.0, outside the integer grid domain [1,2) (also C05: debug_assert panic in debug builds)",
    "fixed: property=C05 e3dd18a integer grid scaled per axis: the exact predicate tested an in-ellipsoid condition in non-cubic boxes (witness findings/F6-uniform-tiny-anisotropic-periodic-n50.json; upstream test_non_perturbed_z)",
]
extra = os.path.join(V, "tools", "known_extra.json")
if os.path.exists(extra):
    x = json.load(open(extra))
    known.extend(x.get("known", []))
    fixed.extend(x.get("fixed", []))
json.dump({"comment": "generated by tools/make_known.py from corpus/baseline*.json and tools/known_extra.json; read-only for the checks",
           "known": known, "fixed": fixed}, open(os.path.join(V, "known_findings.json"), "w"), indent=1)
print(len(known), "known entries,", len(fixed), "fixed entries")
