#!/usr/bin/env bash
# tools/seed_sweep.sh [tier] [ids...]   regression of the kill matrix: apply every seeded change in seeded/<id>/patch.diff to
# the repository, run the check of the property it breaks (quick by default), undo it, and print one line per change.
# Works on /repo, or - inside `vp run --with-repo` - on the snapshot of /repo ($VP_RUN_REPO) with the harness retargeted to
# it, so that a sweep can run in the background while /repo is used for other things. Never a source of evidence.
set -u
VERIF="$(cd "$(dirname "${BASH_SOURCE[0]}")/.." && pwd)"
TIER="${1:-quick}"; shift || true
REPO="${VP_RUN_REPO:-/repo}"
cd "$VERIF" || exit 2
if [ "$REPO" != /repo ]; then
    sed -i "s#path = \"/repo\"#path = \"$REPO\"#" harness/*/Cargo.toml
    ./check setup >/dev/null 2>&1 || echo "setup failed"
fi
IDS=("$@"); if [ ${#IDS[@]} -eq 0 ]; then IDS=($(ls seeded)); fi
export VERIF_OUT="$VERIF/sweep_out"; mkdir -p "$VERIF_OUT"
missed=0
for id in "${IDS[@]}"; do
    d="seeded/$id"; [ -f "$d/patch.diff" ] || continue
    prop=$(python3 -c "import json;print(json.load(open('$d/meta.json'))['breaks_property'])")
    # a change that the check of its own property is not expected to see (recorded in meta.json) is run against the
    # check named there
    chk=$(python3 -c "import json;m=json.load(open('$d/meta.json'));d=[x['check'] for x in m['detected_by']];print(m['breaks_property'] if m['breaks_property'] in d or not d else d[0])")
    if ! git -C "$REPO" diff --quiet; then echo "refusing: $REPO has uncommitted changes"; exit 2; fi
    if ! git -C "$REPO" apply "$VERIF/$d/patch.diff"; then echo "SWEEP $id patch does not apply"; missed=$((missed+1)); continue; fi
    s=$(date +%s)
    out=$(./check "$chk" "$TIER" 2>&1); rc=$?
    git -C "$REPO" checkout -- .
    nv=$(echo "$out" | grep -c "^VIOLATION")
    if [ "$nv" -eq 0 ]; then missed=$((missed+1)); fi
    echo "SWEEP $id property=$prop check=$chk tier=$TIER rc=$rc violations=$nv t=$(( $(date +%s)-s ))s $( [ "$nv" -eq 0 ] && echo MISSED ) :: $(echo "$out" | grep -A1 '^VIOLATION' | sed -n 2p | cut -c1-140)"
done
echo "sweep finished: $missed of ${#IDS[@]} seeded changes not detected"
