#!/usr/bin/env python3
"""tools/seed_keep.py <name> <property> <src dir> -- copy a confirmed seeded change into /verif/seeded/<name>/ and write
meta.json. The free-text fields are read from <src dir>/notes.md (kept verbatim as notes.md) and from the command line:
   --needs "..."  --ran "..."  --detected "C01:quick:25,C06:quick:25"  --missed "C03:quick" """
import argparse, json, os, shutil, subprocess
ap = argparse.ArgumentParser()
ap.add_argument("name"); ap.add_argument("property"); ap.add_argument("src")
ap.add_argument("--needs", default=""); ap.add_argument("--ran", default=""); ap.add_argument("--what", default="")
ap.add_argument("--detected", default=""); ap.add_argument("--missed", default="")
a = ap.parse_args()
dst = f"/verif/seeded/{a.name}"
os.makedirs(dst, exist_ok=True)
shutil.copy(os.path.join(a.src, "patch.diff"), os.path.join(dst, "patch.diff"))
shutil.copy(os.path.join(a.src, "demo.rs"), os.path.join(dst, "demo.rs"))
if os.path.exists(os.path.join(a.src, "cargo_args")):
    shutil.copy(os.path.join(a.src, "cargo_args"), os.path.join(dst, "cargo_args"))
if os.path.exists(os.path.join(a.src, "notes.md")):
    shutil.copy(os.path.join(a.src, "notes.md"), os.path.join(dst, "notes.md"))
head = subprocess.check_output(["git", "-C", "/repo", "rev-parse", "--short", "HEAD"], text=True).strip()
def parse(s):
    out = []
    for item in filter(None, s.split(",")):
        parts = item.split(":")
        out.append({"check": parts[0], "tier": parts[1] if len(parts) > 1 else "quick", **({"violations": int(parts[2])} if len(parts) > 2 else {})})
    return out
meta = {
    "id": a.name,
    "breaks_property": a.property,
    "what": a.what,
    "needs_to_manifest": a.needs,
    "origin": "written by an independent sub-agent that was given only the text of the property and a scratch worktree",
    "confirmed": {
        "repo_commit": head,
        "how": "tools/seed_confirm.sh: patch applies, crate compiles, existing suite unchanged (only test_non_perturbed_z fails), demo.rs fails with the change and passes without it",
        "ran": a.ran,
    },
    "detected_by": parse(a.detected),
    "missed_by": parse(a.missed),
}
json.dump(meta, open(os.path.join(dst, "meta.json"), "w"), indent=1)
print("kept", dst)
