#!/usr/bin/env python3
"""Reads `llvm-cov show -format=text` output and prints, per source file, the executable lines with count 0 that are
not inside a `#[cfg(test)]` module (everything from the first `#[cfg(test)]` line of a file to its end is skipped:
the crate keeps its unit tests in trailing `mod tests`)."""
import re
import sys

cur = None
in_tests = False
out = {}
for line in open(sys.argv[1], errors="replace"):
    line = line.rstrip("\n")
    m = re.match(r"^(/\S+\.rs):$", line)
    if m:
        cur = m.group(1)
        in_tests = False
        out[cur] = []
        continue
    if cur is None:
        continue
    m = re.match(r"^\s*(\d+)\|\s*([0-9.kMG]*)\|(.*)$", line)
    if not m:
        continue
    no, cnt, src = int(m.group(1)), m.group(2), m.group(3)
    if "#[cfg(test)]" in src:
        in_tests = True
    if in_tests:
        continue
    if cnt == "0":
        out[cur].append((no, src))
for f, lines in out.items():
    if not lines:
        continue
    print(f"{f}: {len(lines)} uncovered lines")
    for no, src in lines:
        print(f"  {no:5d} | {src}")
