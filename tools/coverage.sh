#!/usr/bin/env bash
# tools/coverage.sh [tier] [ID ...]    which lines of /repo/src do the monitor workloads actually execute?
# Builds vmon (default features; and the no-rayon build) with -Cinstrument-coverage on the nightly tool chain into
# target/cov, runs the MAIN leg of every check (default: all 20, quick tier) with output redirected to a scratch
# directory, merges the profiles and prints (1) the per-file line/region table for /repo/src and (2) every source line
# of /repo/src (outside #[cfg(test)] modules) that no workload executed -> coverage_out/uncovered.txt.
# A monitor says nothing about code its workload never drives; this is the measurement of that boundary.
# Not evidence and not a check: a development aid, results summarised in DESIGN.md.
set -u
VERIF="$(cd "$(dirname "${BASH_SOURCE[0]}")/.." && pwd)"
H="$VERIF/harness"
TIER="${1:-quick}"; shift || true
IDS=("$@"); if [ ${#IDS[@]} -eq 0 ]; then IDS=(C01 C02 C03 C04 C05 C06 C07 C08 C09 C10 C11 C12 C13 C15 C16 C17 C18 C19 C20); fi
BIN_DIR="$(dirname "$(rustup which --toolchain nightly rustc)")/../lib/rustlib/x86_64-unknown-linux-gnu/bin"
COVOUT="$VERIF/coverage_out"; rm -rf "$COVOUT"; mkdir -p "$COVOUT/prof" "$COVOUT/scratch"
export CARGO_NET_OFFLINE=true
cd "$H" || exit 2
# (build scripts of the instrumented build would drop default_*.profraw files into their working directory, /repo among them)
export LLVM_PROFILE_FILE="$COVOUT/prof/build-%p-%m.profraw"
RUSTFLAGS="-Cinstrument-coverage" cargo +nightly build --offline --release -p vmon --target-dir "$H/target/cov" 2>&1 | tail -2
RUSTFLAGS="-Cinstrument-coverage" cargo +nightly build --offline --release -p vmon --no-default-features --features b_ibig --target-dir "$H/target/cov_nopar" 2>&1 | tail -2
rm -f "$COVOUT"/prof/build-*.profraw
for id in "${IDS[@]}"; do
    LLVM_PROFILE_FILE="$COVOUT/prof/$id-%p-%m.profraw" "$H/target/cov/release/vmon" "$id" --tier "$TIER" --seed "${VERIF_SEED:-1}" \
        --verif-dir "$VERIF" --out-dir "$COVOUT/scratch" >"$COVOUT/$id.log" 2>&1
    echo "[coverage] $id exit $? $(grep -c '^VIOLATION' "$COVOUT/$id.log") violations"
done
for id in C07 C09 C12 C13 C15; do
    case " ${IDS[*]} " in *" $id "*) ;; *) continue;; esac
    LLVM_PROFILE_FILE="$COVOUT/prof/np-$id-%p-%m.profraw" "$H/target/cov_nopar/release/vmon" "$id" --tier "$TIER" --seed "${VERIF_SEED:-1}" \
        --verif-dir "$VERIF" --out-dir "$COVOUT/scratch" --leg norayon >"$COVOUT/np-$id.log" 2>&1
    echo "[coverage] $id (no rayon) exit $?"
done
"$BIN_DIR/llvm-profdata" merge -sparse "$COVOUT"/prof/C*.profraw -o "$COVOUT/par.profdata"
"$BIN_DIR/llvm-cov" report "$H/target/cov/release/vmon" -instr-profile="$COVOUT/par.profdata" -ignore-filename-regex='(registry|rustc|harness)' 2>/dev/null \
    | awk '{print}' > "$COVOUT/report.txt"
"$BIN_DIR/llvm-cov" show "$H/target/cov/release/vmon" -instr-profile="$COVOUT/par.profdata" -ignore-filename-regex='(registry|rustc|harness)' \
    -show-line-counts-or-regions -format=text 2>/dev/null > "$COVOUT/show.txt"
if ls "$COVOUT"/prof/np-*.profraw >/dev/null 2>&1; then
    "$BIN_DIR/llvm-profdata" merge -sparse "$COVOUT"/prof/np-*.profraw -o "$COVOUT/nopar.profdata"
    "$BIN_DIR/llvm-cov" show "$H/target/cov_nopar/release/vmon" -instr-profile="$COVOUT/nopar.profdata" -ignore-filename-regex='(registry|rustc|harness)' \
        -show-line-counts-or-regions -format=text 2>/dev/null > "$COVOUT/show_nopar.txt"
fi
python3 "$VERIF/tools/coverage_uncovered.py" "$COVOUT/show.txt" > "$COVOUT/uncovered.txt"
[ -f "$COVOUT/show_nopar.txt" ] && python3 "$VERIF/tools/coverage_uncovered.py" "$COVOUT/show_nopar.txt" > "$COVOUT/uncovered_nopar.txt"
cat "$COVOUT/report.txt"
echo "uncovered lines: $COVOUT/uncovered.txt ($(grep -c '^ ' "$COVOUT/uncovered.txt") lines)"
rm -rf "$COVOUT/prof" "$COVOUT/scratch"
